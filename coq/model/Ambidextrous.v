(* The STAR and UL cases of mmd_assign_ambidextrous_tokens_in_block (mmd.c): which emphasis markers may
   open and which may close.  The text is the byte list [s]; the C string has one more byte, the
   terminating NUL at index [length s]; a read at any other index outside the list is an error value
   (None), never a default.  Offsets are nat; where the C code lets a size_t run to -1 the model keeps
   offset+1.  The classifiers are the regenerated tables of gen/CharTable.v.  Definitions only. *)
From Coq Require Import List Arith NArith Bool.
From MMD.gen Require Import CharTable.
Import ListNotations.

Definition inb (x : N) (l : list N) : bool := existsb (N.eqb x) l.
Definition wsle (c : N) : bool := inb c is_whitespace_or_line_ending.
Definition wslp (c : N) : bool := inb c is_whitespace_or_line_ending_or_punctuation.
Definition alnum (c : N) : bool := inb c is_alphanumeric.
Definition is_star (c : N) : bool := N.eqb c 42.
Definition marker (c : N) : bool := N.eqb c 42 || N.eqb c 95.
Definition nonword (c : N) : bool := negb (wslp c).     (* "letters/numbers": what the word scans skip *)

Local Notation "'let?' x ':=' e 'in' k" := (match e with Some x => k | None => None end)
  (at level 200, x pattern, e at level 100, k at level 200, right associativity).

(* str[i] *)
Definition rd (s : list N) (i : nat) : option N :=
  match nth_error s i with
  | Some c => Some c
  | None => if Nat.eqb i (length s) then Some 0%N else None
  end.

(* while ((offset != 0) && p(str[offset])) offset--;      -> the final offset *)
Fixpoint scan_left (p : N -> bool) (s : list N) (off : nat) : option nat :=
  match off with
  | 0 => Some 0
  | S o => let? c := rd s off in if p c then scan_left p s o else Some off
  end.

(* while (offset && p(str[offset])) { count++; offset--; }   -> (count, final offset) *)
Fixpoint count_left (p : N -> bool) (s : list N) (off : nat) : option (nat * nat) :=
  match off with
  | 0 => Some (0, 0)
  | S o => let? c := rd s off in
           if p c then (let? (n, o') := count_left p s o in Some (S n, o')) else Some (0, off)
  end.

(* while ((offset != -1) && p(str[offset])) { count++; offset--; }   with off1 = offset + 1 *)
Fixpoint count_left_m1 (p : N -> bool) (s : list N) (off1 : nat) : option nat :=
  match off1 with
  | 0 => Some 0
  | S o => let? c := rd s o in if p c then option_map S (count_left_m1 p s o) else Some 0
  end.

(* while (p(str[offset])) offset++;   over the bytes from offset on: at the end of the list the byte read is
   the terminator, and if that one satisfies p the next read is outside the string *)
Fixpoint scan_tail (p : N -> bool) (l : list N) : option nat :=
  match l with
  | [] => if p 0%N then None else Some 0
  | c :: l' => if p c then option_map S (scan_tail p l') else Some 0
  end.

(* -> the number of bytes skipped (the final offset is off + that) *)
Definition scan_right (p : N -> bool) (s : list N) (off : nat) : option nat :=
  if Nat.leb off (length s) then scan_tail p (skipn off s) else None.

(* the look-left test shared by both cases:
     offset = t->start; while ((offset != 0) && marker(str[offset])) offset--;
     at_start = (offset == 0) && marker(str[0])
   -> (at_start, offset) *)
Definition look_left (s : list N) (start : nat) : option (bool * nat) :=
  let? off := scan_left marker s start in
  match off with
  | 0 => let? c := rd s 0 in Some (marker c, 0)
  | _ => Some (false, off)
  end.

(* the decision on the four counts (STAR, "in the middle of a word") *)
Definition decide (lead lag pre post : nat) (oc : bool * bool) : bool * bool :=
  let run := lead + lag + 1 in
  if Nat.ltb 0 (pre + post) then
    if Nat.eqb (pre + post) run then
      if Nat.eqb pre post then (false, false)
      else if Nat.eqb pre 0 then (fst oc, false)
      else if Nat.eqb post 0 then (false, snd oc)
      else oc
    else if Nat.eqb pre (run + post) then (false, snd oc)
    else if Nat.eqb post (pre + run) then (fst oc, false)
    else ((if Nat.eqb post run then fst oc else false), (if Nat.eqb pre run then snd oc else false))
  else oc.

(* what is to the left of the run of markers the token is in: (whitespace, line ending or the start of the text;
   a letter or digit) *)
Definition left_class (s : list N) (start : nat) : option (bool * bool) :=
  let? (at_start, off) := look_left s start in
  if at_start then Some (true, false) else let? c := rd s off in Some (wsle c, alnum c).

(* offset = t->start + 1; while (marker(str[offset])) offset++;   -> the class of str[offset] *)
Definition right_class (s : list N) (start : nat) : option (bool * bool) :=
  let? k := scan_right marker s (S start) in
  let? c := rd s (S start + k) in
  Some (wsle c, alnum c).

(* the word scan to the left followed by the count of '*' before the word *)
Definition pre_of (s : list N) (o1 : nat) : option nat :=
  let? o2 := scan_left nonword s o1 in count_left_m1 is_star s (S o2).

(* STAR, "in the middle of a word": (lead_count, lag_count, pre_count, post_count) *)
Definition word_counts (s : list N) (start : nat) : option (nat * nat * nat * nat) :=
  match start with
  | 0 => None                                   (* offset = t->start - 1 would wrap *)
  | S sm1 =>
    let? (lead, o1) := count_left is_star s sm1 in
    let? pre := pre_of s o1 in
    let? lag := scan_right is_star s (S start) in
    let o3 := S start + lag in
    let? w := scan_right nonword s o3 in
    let o4 := o3 + w in
    let? post := (match o4 with 0 => Some 0 | _ => scan_right is_star s o4 end) in
    Some (lead, lag, pre, post)
  end.

(* case STAR -> (can_open, can_close) *)
Definition assign_star (s : list N) (start : nat) : option (bool * bool) :=
  let? (lw, _) := left_class s start in
  let? (rw, _) := right_class s start in
  if negb rw && negb lw then
    let? (lead, lag, pre, post) := word_counts s start in
    Some (decide lead lag pre post (true, true))
  else Some (negb rw, negb lw).

(* case UL *)
Definition assign_ul (s : list N) (start : nat) : option (bool * bool) :=
  let? (lw, la) := left_class s start in
  let? (rw, ra) := right_class s start in
  Some (negb la && negb rw, negb lw && negb ra).

Definition assign (star : bool) (s : list N) (start : nat) : option (bool * bool) :=
  if star then assign_star s start else assign_ul s start.

(* ---------- the other cases that look at the text around a token: a token is (kind, start, len) *)
Definition punct (c : N) : bool := inb c is_punctuation.
Definition digit (c : N) : bool := inb c is_digit.

Inductive tkind := KStar | KUl | KBacktick | KQuoteSingle | KQuoteDouble | KDashN | KMath | KSupSub.
Inductive retype := Same | ToApostrophe | ToTextPlain.
Record tres := { r_open : bool; r_close : bool; r_type : retype; r_len : nat }.
Definition mk (o c : bool) (len : nat) : tres := {| r_open := o; r_close := c; r_type := Same; r_len := len |}.

(* str[offset - 1], or nothing when offset == 0 *)
Definition prev (s : list N) (start : nat) : option (option N) :=
  match start with 0 => Some None | S p => let? c := rd s p in Some (Some c) end.

(* case BACKTICK (only the two-backtick quote form is touched) *)
Definition assign_backtick (s : list N) (start len : nat) : option tres :=
  if negb (Nat.eqb len 2) then Some (mk true true len) else
  match start with
  | 0 => Some (mk true false len)
  | S p => let? c := rd s start in
           if negb (N.eqb c 96) then (let? c1 := rd s p in Some (mk true (negb (wslp c1)) len))
           else Some (mk true true len)
  end.

(* case QUOTE_DOUBLE, and QUOTE_SINGLE after its apostrophe tests *)
Definition assign_quote (s : list N) (start len : nat) : option tres :=
  let? pv := prev s start in
  let? cn := rd s (S start) in
  let '(o, c) := match pv with
                 | None => (true, false)
                 | Some cp => if wsle cp then (true, false) else if negb (wslp cp) then (false, true) else (true, true)
                 end in
  Some (mk (o && negb (wsle cn)) c len).

Definition assign_quote_single (s : list N) (start len : nat) : option tres :=
  let? pv := prev s start in
  let? cn := rd s (S start) in
  let apo := {| r_open := true; r_close := true; r_type := ToApostrophe; r_len := len |} in
  if negb (match pv with None => true | Some cp => wslp cp end || wslp cn) then Some apo else
  let? poss := (match pv with
                | Some cp => if punct cp && alnum cn && (N.eqb cn 115 || N.eqb cn 83)
                             then (let? c2 := rd s (S (S start)) in Some (wslp c2)) else Some false
                | None => Some false end) in
  if poss then Some apo else assign_quote s start len.

(* case DASH_N with smart typography on: a single hyphen stays a dash only between digits *)
Definition assign_dash (s : list N) (start len : nat) : option tres :=
  if negb (Nat.eqb len 1) then Some (mk true true len) else
  let? pv := prev s start in
  let? plain := (match pv with
                 | None => Some true
                 | Some cp => if negb (digit cp) then Some true else let? cn := rd s (S start) in Some (negb (digit cn))
                 end) in
  Some {| r_open := true; r_close := true; r_type := if plain then ToTextPlain else Same; r_len := len |}.

(* cases MATH_DOLLAR_SINGLE / _DOUBLE (not in compatibility mode) *)
Definition assign_math (s : list N) (start len : nat) : option tres :=
  let? pv := prev s start in
  let '(o, c) := match pv with
                 | None => (true, false)
                 | Some cp => if wsle cp then (true, false) else if negb (wslp cp) then (false, true) else (true, true)
                 end in
  let? cn := rd s (start + len) in
  if wsle cn then Some (mk false c len)
  else if negb (wslp cn) then Some (mk o false len)
  else Some (mk o c len).

(* while ((offset > 0) && !wsle(str[offset - 1])) { if (str[offset - 1] == m) found; offset--; } *)
Fixpoint find_left (m : N) (s : list N) (off : nat) : option bool :=
  match off with
  | 0 => Some false
  | S o => let? c := rd s o in if wsle c then Some false else if N.eqb c m then Some true else find_left m s o
  end.

(* while (!wsle(str[offset])) { if (str[offset] == m) found; offset++; }   over the bytes from offset on *)
Fixpoint find_tail (m : N) (l : list N) : option bool :=
  match l with
  | [] => if wsle 0%N then Some false else if N.eqb 0%N m then Some true else None
  | c :: l' => if wsle c then Some false else if N.eqb c m then Some true else find_tail m l'
  end.

(* cases SUPERSCRIPT / SUBSCRIPT (not in compatibility mode); the new length is that of the "x^2" form, whose
   relinking of the following tokens is not modelled *)
Definition assign_supsub (s : list N) (start len : nat) : option tres :=
  let? m := rd s start in
  let? pv := prev s start in
  let cc0 := match pv with None => true | Some cp => negb (wsle cp) end in
  let? cn := rd s (start + len) in
  let co0 := negb (wsle cn) in
  let? cc := (if cc0 then find_left m s start else Some false) in
  if co0 then
    let? co := (if Nat.leb (start + len) (length s) then find_tail m (skipn (start + len) s) else None) in
    if negb cc && negb co then
      let? k := scan_right nonword s (start + len) in
      Some (mk false false (len + k))
    else Some (mk co cc len)
  else Some (mk false cc len).

Definition assign_tok (k : tkind) (s : list N) (start len : nat) : option tres :=
  match k with
  | KStar => let? (o, c) := assign_star s start in Some (mk o c len)
  | KUl => let? (o, c) := assign_ul s start in Some (mk o c len)
  | KBacktick => assign_backtick s start len
  | KQuoteSingle => assign_quote_single s start len
  | KQuoteDouble => assign_quote s start len
  | KDashN => assign_dash s start len
  | KMath => assign_math s start len
  | KSupSub => assign_supsub s start len
  end.

Definition assign_toks (s : list N) (toks : list (tkind * nat * nat)) : list (option tres) :=
  map (fun '(k, st, ln) => assign_tok k s st ln) toks.

(* every marker of a text, in order: (offset, can_open, can_close) or the offset alone when a read leaves the string *)
Definition assign_all (s : list N) : list (nat * option (bool * bool)) :=
  flat_map (fun i => match nth_error s i with
                     | Some c => if N.eqb c 42 then [(i, assign true s i)] else if N.eqb c 95 then [(i, assign false s i)] else []
                     | None => [] end) (seq 0 (length s)).
