(* C15: executable checker for a dumped token tree (harness/treedump.c): tokens are numbered in
   the order of a child-first traversal from the root (root = 1, 0 = NULL).  Definitions only. *)
From MMD.lib Require Import Bytes.
Local Open Scope N_scope.

Record tok := mktok { ty : N; st : N; ln : N; nx : N; pv : N; ch : N; mt : N }.

Definition get (h : list tok) (i : N) : option tok :=
  if i =? 0 then None else nth_error h (N.to_nat (i - 1)).

Fixpoint ids_from (i : N) (n : nat) : list N :=
  match n with O => [] | S k => i :: ids_from (i + 1) k end.

Definition ok_tok (h : list tok) (srclen : N) (i : N) (t : tok) : bool :=
  (st t + ln t <=? srclen) &&
  (if nx t =? 0 then true else
     (i <? nx t) && match get h (nx t) with Some u => (pv u =? i) && (st t <=? st u) | None => false end) &&
  (if pv t =? 0 then true else match get h (pv t) with Some u => nx u =? i | None => false end) &&
  (if ch t =? 0 then true else
     (i <? ch t) && match get h (ch t) with Some c => pv c =? 0 | None => false end) &&
  (if mt t =? 0 then true else match get h (mt t) with Some u => mt u =? i | None => false end).

(* the tokens referenced through next / child *)
Definition targets (h : list tok) : list N :=
  flat_map (fun t => (if nx t =? 0 then [] else [nx t]) ++ (if ch t =? 0 then [] else [ch t])) h.

Definition count (l : list N) (x : N) : nat := length (filter (N.eqb x) l).

Definition root_ok (h : list tok) (srclen : N) : bool :=
  match h with
  | [] => false
  | r :: _ => (ty r =? 0) && (st r =? 0) && (ln r =? srclen) && (nx r =? 0) && (pv r =? 0)
  end.

Definition wf_tree (h : list tok) (srclen : N) : bool :=
  root_ok h srclen &&
  forallb (fun p => ok_tok h srclen (fst p) (snd p)) (combine (ids_from 1 (length h)) h) &&
  (count (targets h) 1 =? 0)%nat &&
  forallb (fun i => (count (targets h) i =? 1)%nat) (ids_from 2 (length h - 1)).
