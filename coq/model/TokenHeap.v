(* C15: a heap model of the tree surgery primitives of src/token.c.

   A token is a record of the fields the primitives read or write; pointers are token numbers in
   order of creation (1, 2, ...; 0 = NULL).  Every C statement that reads or writes a field through a
   pointer is one [rd] / [wr] below, in the order of the C text, so that aliasing behaves as in C.
   Dereferencing NULL (or a number that was never allocated) is [None]; so is a pointer walk that
   does not end within [length h + 1] steps (the C loop would not terminate on a cyclic chain).
   token_free() is a no-th_op, as it is in the default (object pool) configuration: pruned tokens stay
   in the heap, unreachable.  size_t arithmetic wraps at 2^64.

   Definitions only; the theorems are in proofs/TokenHeapProofs.v.  The correspondence check runs
   these functions (extracted) and the real token.c on the same operation scripts and compares the
   complete heaps (checks/c15.py, harness/surgery.c). *)
From MMD.lib Require Import Bytes.
Local Open Scope N_scope.

Inductive fld := Fty | Fst | Fln | Fnx | Fpv | Fch | Ftl | Fmt.

Record tk := mktk { kty : N; kst : N; kln : N; knx : N; kpv : N; kch : N; ktl : N; kmt : N }.

Definition getf (t : tk) (f : fld) : N :=
  match f with Fty => kty t | Fst => kst t | Fln => kln t | Fnx => knx t | Fpv => kpv t | Fch => kch t | Ftl => ktl t | Fmt => kmt t end.

Definition setf (t : tk) (f : fld) (v : N) : tk :=
  match f with
  | Fty => mktk v (kst t) (kln t) (knx t) (kpv t) (kch t) (ktl t) (kmt t)
  | Fst => mktk (kty t) v (kln t) (knx t) (kpv t) (kch t) (ktl t) (kmt t)
  | Fln => mktk (kty t) (kst t) v (knx t) (kpv t) (kch t) (ktl t) (kmt t)
  | Fnx => mktk (kty t) (kst t) (kln t) v (kpv t) (kch t) (ktl t) (kmt t)
  | Fpv => mktk (kty t) (kst t) (kln t) (knx t) v (kch t) (ktl t) (kmt t)
  | Fch => mktk (kty t) (kst t) (kln t) (knx t) (kpv t) v (ktl t) (kmt t)
  | Ftl => mktk (kty t) (kst t) (kln t) (knx t) (kpv t) (kch t) v (kmt t)
  | Fmt => mktk (kty t) (kst t) (kln t) (knx t) (kpv t) (kch t) (ktl t) v
  end.

Definition heap := list tk.

Definition idx (i : N) : nat := N.to_nat (i - 1).

Definition tokat (h : heap) (i : N) : option tk := if i =? 0 then None else nth_error h (idx i).

Definition rd (h : heap) (i : N) (f : fld) : option N :=
  match tokat h i with Some t => Some (getf t f) | None => None end.

Fixpoint upd_nth {A} (l : list A) (n : nat) (g : A -> A) : list A :=
  match l, n with
  | [], _ => []
  | x :: r, O => g x :: r
  | x :: r, S k => x :: upd_nth r k g
  end.

Definition wr (h : heap) (i : N) (f : fld) (v : N) : option heap :=
  match tokat h i with Some _ => Some (upd_nth h (idx i) (fun t => setf t f v)) | None => None end.

Definition obind {A B} (x : option A) (k : A -> option B) : option B :=
  match x with Some a => k a | None => None end.
Notation "'let?' x := e 'in' k" := (obind e (fun x => k)) (at level 200, x name, e at level 100, k at level 200, right associativity).

(* ---- allocation *)

Definition fresh (h : heap) : N := Nlen h + 1.

(* token_new: all links NULL, tail = itself *)
Definition token_new (h : heap) (type start len : N) : heap * N :=
  (h ++ [mktk type start len 0 0 0 (fresh h) 0], fresh h).

(* token_copy: a bitwise copy of the original *)
Definition token_copy (h : heap) (o : N) : option (heap * N) :=
  let? t := tokat h o in Some (h ++ [t], fresh h).

(* ---- pointer walks (fuel = number of tokens + 1) *)

Fixpoint walk (f : fld) (h : heap) (fuel : nat) (t : N) : option N :=
  match fuel with
  | O => None
  | S k => let? n := rd h t f in if n =? 0 then Some t else walk f h k n
  end.

Definition fuel_of (h : heap) : nat := S (length h).
Definition last_of (h : heap) (t : N) : option N := walk Fnx h (fuel_of h) t.
Definition head_of (h : heap) (t : N) : option N := walk Fpv h (fuel_of h) t.

(* ---- the primitives *)

(* token_new_parent(child, type) *)
Definition token_new_parent (h : heap) (child type : N) : option (heap * N) :=
  if child =? 0 then Some (token_new h type 0 0) else
  let? cst := rd h child Fst in
  let (h, t) := token_new h type cst 0 in
  let? h := wr h t Fch child in
  let? h := wr h child Fpv 0 in
  let? cnx := rd h child Fnx in
  if cnx =? 0 then
    let? cln := rd h child Fln in let? h := wr h t Fln cln in Some (h, t)
  else
    let? l := last_of h child in
    let? lst := rd h l Fst in let? lln := rd h l Fln in let? tst := rd h t Fst in
    let? h := wr h t Fln (wsub (wadd lst lln) tst) in Some (h, t).

(* token_chain_append(chain_start, t) *)
Definition token_chain_append (h : heap) (cs t : N) : option heap :=
  if (cs =? 0) || (t =? 0) then Some h else
  let? ctl := rd h cs Ftl in
  let? h := wr h ctl Fnx t in
  let? ctl := rd h cs Ftl in
  let? h := wr h t Fpv ctl in
  let? ttl := rd h t Ftl in
  wr h cs Ftl ttl.

(* token_append_child(parent, t) *)
Definition token_append_child (h : heap) (p t : N) : option heap :=
  if (p =? 0) || (t =? 0) then Some h else
  let? pc := rd h p Fch in
  let? h := (if pc =? 0 then wr h p Fch t else token_chain_append h pc t) in
  let? pc := rd h p Fch in
  let? ctl := rd h pc Ftl in
  let? s := rd h ctl Fst in let? l := rd h ctl Fln in let? ps := rd h p Fst in
  wr h p Fln (wsub (wadd s l) ps).

(* token_remove_first_child(parent) *)
Definition token_remove_first_child (h : heap) (p : N) : option heap :=
  if p =? 0 then Some h else
  let? t := rd h p Fch in
  if t =? 0 then Some h else
  let? tnx := rd h t Fnx in
  let? h := wr h p Fch tnx in
  let? pc := rd h p Fch in
  if pc =? 0 then Some h else
  let? h := wr h pc Fpv 0 in
  let? ttl := rd h t Ftl in
  let? pc := rd h p Fch in
  wr h pc Ftl ttl.

(* token_remove_last_child(parent) *)
Definition token_remove_last_child (h : heap) (p : N) : option heap :=
  if p =? 0 then Some h else
  let? pc := rd h p Fch in
  if pc =? 0 then Some h else
  let? t := rd h pc Ftl in
  let? tpv := rd h t Fpv in
  if tpv =? 0 then Some h else
  let? h := wr h tpv Fnx 0 in
  let? pc := rd h p Fch in
  let? tpv := rd h t Fpv in
  wr h pc Ftl tpv.

(* token_remove_tail(head) *)
Definition token_remove_tail (h : heap) (hd : N) : option heap :=
  if hd =? 0 then Some h else
  let? t := rd h hd Ftl in
  if t =? hd then Some h else
  let? tpv := rd h t Fpv in
  if tpv =? 0 then Some h else
  let? h := wr h tpv Fnx 0 in
  let? tpv := rd h t Fpv in
  wr h hd Ftl tpv.

(* fix_token_chain_tail(t) *)
Definition fix_token_chain_tail (h : heap) (t : N) : option heap :=
  if t =? 0 then Some h else
  let? hd := head_of h t in
  let? l := last_of h t in
  wr h hd Ftl l.

(* token_pop_link_from_chain(t) *)
Definition token_pop_link_from_chain (h : heap) (t : N) : option heap :=
  if t =? 0 then Some h else
  let? prev := rd h t Fpv in
  let? next := rd h t Fnx in
  let? h := wr h t Fnx 0 in
  let? h := wr h t Fpv 0 in
  let? h := wr h t Ftl t in
  let? h := (if prev =? 0 then Some h else let? h := wr h prev Fnx next in fix_token_chain_tail h prev) in
  if next =? 0 then Some h else wr h next Fpv prev.

(* tokens_prune(first, last); the pruned tokens are released (no-th_op with the object pool) *)
Definition tokens_prune (h : heap) (first last : N) : option heap :=
  if (first =? 0) || (last =? 0) then Some h else
  let? prev := rd h first Fpv in
  let? next := rd h last Fnx in
  let? h := (if prev =? 0 then Some h else
             let? h := wr h prev Fnx next in
             if next =? 0 then fix_token_chain_tail h prev else Some h) in
  let? h := (if next =? 0 then Some h else wr h next Fpv prev) in
  let? h := wr h first Fpv 0 in
  wr h last Fnx 0.

(* token_prune_graft(first, last, container_type); returns first *)
Definition token_prune_graft (h : heap) (first last ctype : N) : option heap :=
  if (first =? 0) || (last =? 0) then Some h else
  let? next := rd h last Fnx in
  let? hc := token_copy h first in
  let (h, c) := (hc : heap * N) in
  let? h := wr h c Fpv 0 in
  let? h := wr h c Ftl last in
  let? cnx := rd h c Fnx in
  let? h := (if cnx =? 0 then Some h else wr h cnx Fpv c) in
  let last := if first =? last then c else last in
  let? h := wr h first Fch c in
  let? h := wr h first Fty ctype in
  let? ls := rd h last Fst in let? ll := rd h last Fln in let? fs := rd h first Fst in
  let? h := wr h first Fln (wsub (wadd ls ll) fs) in
  let? h := wr h first Fnx next in
  let? fm := rd h first Fmt in
  let? h := (if fm =? 0 then Some h else
        let? h := wr h first Fmt 0 in
        let? cm := rd h c Fmt in
        wr h cm Fmt c) in
  let? h := wr h last Fnx 0 in
  let? h := (if next =? 0 then Some h else wr h next Fpv first) in
  let? fnx := rd h first Fnx in
  if fnx =? 0 then
    let? w := head_of h first in
    let? h := wr h first Ftl first in
    wr h w Ftl first
  else Some h.

(* token_split(t, start, len, new_type) *)
Definition token_split (h : heap) (t start len ntype : N) : option heap :=
  if t =? 0 then Some h else
  let stop := wadd start len in
  let? ts := rd h t Fst in let? tlen := rd h t Fln in
  if start <? ts then Some h else
  if wadd ts tlen <? stop then Some h else
  let inset_start := ts <? start in
  let inset_stop := stop <? wadd ts tlen in
  if inset_start then
    let (h, a) := token_new h ntype start len in
    let? h := (if inset_stop then
            let? tty := rd h t Fty in
            let (h, t2) := token_new h tty stop (wsub (wadd ts tlen) stop) in
            let? tnx := rd h t Fnx in
            let? h := wr h t2 Fnx tnx in
            let? h := (if tnx =? 0 then Some h else wr h tnx Fpv t2) in
            let? h := wr h a Fnx t2 in
            wr h t2 Fpv a
          else
            let? tnx := rd h t Fnx in
            let? h := wr h a Fnx tnx in
            if tnx =? 0 then Some h else wr h tnx Fpv a) in
    let? h := wr h t Fnx a in
    let? h := wr h a Fpv t in
    wr h t Fln (wsub start ts)
  else if inset_stop then
    let? tty := rd h t Fty in
    let (h, a) := token_new h tty stop (wsub (wadd ts tlen) stop) in
    let? h := wr h a Fpv t in
    let? tnx := rd h t Fnx in
    let? h := wr h a Fnx tnx in
    let? h := wr h t Fnx a in
    let? anx := rd h a Fnx in
    let? h := (if anx =? 0 then Some h else wr h anx Fpv a) in
    let? h := wr h t Fln (wsub stop ts) in
    wr h t Fty ntype
  else
    wr h t Fty ntype.

(* token_split_on_char(t, source, c): the loop over pos in [0, stop) with pos + 1 < stop *)
Fixpoint split_on_char_loop (n : nat) (h : heap) (src : list N) (c : N) (t start pos stop : N) : option heap :=
  match n with
  | O => Some h
  | S k =>
      if pos + 1 <? stop then
        if nth (N.to_nat (start + pos)) src 0 =? c then
          let? tty := rd h t Fty in
          let (h, nw) := token_new h tty (wadd (wadd start pos) 1) (wsub stop (pos + 1)) in
          let? tnx := rd h t Fnx in
          let? h := wr h nw Fnx tnx in
          let? h := wr h nw Fpv t in
          let? h := (if tnx =? 0 then Some h else wr h tnx Fpv nw) in
          let? h := wr h t Fnx nw in
          let? ts := rd h t Fst in
          let? h := wr h t Fln (wsub (wadd start pos) ts) in
          split_on_char_loop k h src c nw start (pos + 1) stop
        else split_on_char_loop k h src c t start (pos + 1) stop
      else Some h
  end.

Definition token_split_on_char (h : heap) (src : list N) (t c : N) : option heap :=
  if t =? 0 then Some h else
  let? start := rd h t Fst in let? stop := rd h t Fln in
  (* source[start + pos] is read for every pos with pos + 1 < stop: inside the string or its terminator *)
  if Nlen src + 2 <? start + stop then None else
  split_on_char_loop (N.to_nat stop) h src c t start 0 stop.

(* ---- mmd.c:pair_emphasis_tokens: mated * and _ markers become emphasis / strong containers.  The kinds it tests and
   assigns are parameters (the correspondence check passes the values the compiler gives them). *)
Record econst := mkec { c_star : N; c_ul : N; c_strong_start : N; c_strong_stop : N; c_emph_start : N; c_emph_stop : N;
                        c_pair_strong : N; c_pair_emph : N; c_pair_backtick : N; c_pair_math : N }.

Fixpoint pair_emphasis (fuel : nat) (k : econst) (h : heap) (t : N) {struct fuel} : option heap :=
  match fuel with
  | O => None
  | S fuel =>
    if t =? 0 then Some h else
    let? m := rd h t Fmt in let? ty := rd h t Fty in
    let? h :=
      (if negb (m =? 0) && ((ty =? c_star k) || (ty =? c_ul k)) then
         let closer := m in
         let? tn := rd h t Fnx in
         (* the test for a strong pair, left to right with the short cuts of && *)
         let? strong :=
           (if tn =? 0 then Some false else
            let? tnm := rd h tn Fmt in let? cpv := rd h closer Fpv in
            if negb (tnm =? cpv) then Some false else
            let? tnty := rd h tn Fty in
            if negb (ty =? tnty) then Some false else
            if tnm =? t then Some false else
            let? ts := rd h t Fst in let? tln := rd h t Fln in let? tns := rd h tn Fst in
            if negb (wadd ts tln =? tns) then Some false else
            let? cs := rd h closer Fst in let? cps := rd h cpv Fst in let? cpl := rd h cpv Fln in
            Some (cs =? wadd cps cpl)) in
         if strong then
           let? h := wr h t Fty (c_strong_start k) in let? h := wr h t Fln 2 in
           let? h := wr h closer Fty (c_strong_stop k) in let? h := wr h closer Fln 2 in
           let? cs := rd h closer Fst in let? h := wr h closer Fst (wsub cs 1) in
           let? tn := rd h t Fnx in let? h := tokens_prune h tn tn in
           let? cp := rd h closer Fpv in let? h := tokens_prune h cp cp in
           token_prune_graft h t closer (c_pair_strong k)
         else
           let? h := wr h t Fty (c_emph_start k) in let? h := wr h closer Fty (c_emph_stop k) in
           token_prune_graft h t closer (c_pair_emph k)
       else Some h) in
    let? tc := rd h t Fch in let? ty2 := rd h t Fty in
    let? h := (if negb (tc =? 0) && negb ((ty2 =? c_pair_backtick k) || (ty2 =? c_pair_math k)) then pair_emphasis fuel k h tc else Some h) in
    let? tn := rd h t Fnx in
    pair_emphasis fuel k h tn
  end.

(* ---- operation scripts (the correspondence check and the history theorems) *)

Inductive th_op :=
| ONew (type start len : N)
| OCopy (o : N)
| OParent (child type : N)
| OChainAppend (cs t : N)
| OAppendChild (p t : N)
| ORemoveFirst (p : N)
| ORemoveLast (p : N)
| ORemoveTail (hd : N)
| OFixTail (t : N)
| OPop (t : N)
| OPrune (first last : N)
| OGraft (first last ctype : N)
| OSplit (t start len ntype : N)
| OSplitChar (t c : N)
| OMate (a b : N)          (* what token_pairs.c does to a matched opener / closer: a->mate = b; b->mate = a *)
| OEmph (k : econst) (t : N).

Definition th_step (src : list N) (h : heap) (o : th_op) : option heap :=
  match o with
  | ONew a b c => Some (fst (token_new h a b c))
  | OCopy a => option_map fst (token_copy h a)
  | OParent a b => option_map fst (token_new_parent h a b)
  | OChainAppend a b => token_chain_append h a b
  | OAppendChild a b => token_append_child h a b
  | ORemoveFirst a => token_remove_first_child h a
  | ORemoveLast a => token_remove_last_child h a
  | ORemoveTail a => token_remove_tail h a
  | OFixTail a => fix_token_chain_tail h a
  | OPop a => token_pop_link_from_chain h a
  | OPrune a b => tokens_prune h a b
  | OGraft a b c => token_prune_graft h a b c
  | OSplit a b c d => token_split h a b c d
  | OSplitChar a c => token_split_on_char h src a c
  | OMate a b => let? h := wr h a Fmt b in wr h b Fmt a
  | OEmph k a => pair_emphasis (4 * length h + 4) k h a
  end.

(* runs a script; the result is the heap and the number of operations executed before the first one
   that dereferences NULL / does not terminate (all of them if none does) *)
Fixpoint th_run (src : list N) (h : heap) (ops : list th_op) (done : N) : heap * N * bool :=
  match ops with
  | [] => (h, done, true)
  | o :: r => match th_step src h o with
              | Some h' => th_run src h' r (done + 1)
              | None => (h, done, false)
              end
  end.
