(* Executable model of critic_markup.c: tokenizer (greedy leftmost-longest over the marker set),
   pair matcher (token_pairs.c instantiated with the five CriticMarkup pairings, all
   ALLOW_EMPTY | PRUNE_MATCH) and the accept / reject walkers.
   Abstractions (validated by correspondence, harness/critic.c):
   * plain text is kept byte by byte (the C groups it into tokens that are never touched);
   * the erasures the C performs back to front by offset are modelled by concatenating what is
     kept, in order - the tokens tile the text.
   Definitions only. *)
From MMD.lib Require Import Bytes.
Local Open Scope N_scope.

Inductive mark := AddO | AddC | DelO | DelC | SubO | SubD | SubC | HiO | HiC | ComO | ComC.
Inductive item := M (m : mark) | P (b : N).            (* marker token | one plain byte *)

Definition mark_text (m : mark) : list N :=
  match m with
  | AddO => [123; 43; 43] | AddC => [43; 43; 125]       (* {++  ++} *)
  | DelO => [123; 45; 45] | DelC => [45; 45; 125]       (* {--  --} *)
  | SubO => [123; 126; 126] | SubD => [126; 62] | SubC => [126; 126; 125]   (* {~~  ~>  ~~} *)
  | HiO => [123; 61; 61] | HiC => [61; 61; 125]         (* {==  ==} *)
  | ComO => [123; 62; 62] | ComC => [60; 60; 125]       (* {>>  <<} *)
  end.

Definition marks3 : list mark := [AddO; AddC; DelO; DelC; SubO; SubC; HiO; HiC; ComO; ComC].
Definition escapable (b : N) : bool :=
  (b =? 123) || (b =? 125) || (b =? 43) || (b =? 45) || (b =? 126) || (b =? 62) || (b =? 61).

(* what matches at the head of [l]: a marker (longest first), an escape (2 plain bytes), or nothing *)
Definition match_at (l : list N) : option (list item * nat) :=
  match find (fun m => prefixb (mark_text m) l) marks3 with
  | Some m => Some ([M m], 3%nat)
  | None =>
    if prefixb (mark_text SubD) l then Some ([M SubD], 2%nat) else
    match l with
    | b0 :: c :: _ => if (b0 =? 92) && escapable c then Some ([P 92; P c], 2%nat) else None
    | _ => None
    end
  end.

(* greedy scan; [skip] bytes of an already matched pattern are passed over *)
Fixpoint tokenize_from (skip : nat) (l : list N) : list item :=
  match l with
  | [] => []
  | b :: r =>
    match skip with
    | S k => tokenize_from k r
    | O => match match_at l with
           | Some (its, n) => its ++ tokenize_from (n - 1) r
           | None => P b :: tokenize_from O r
           end
    end
  end.
Definition tokenize (l : list N) : list item := tokenize_from O l.

(* ---- pairing: frames = openers still on the stack, each with what followed it *)
Inductive tree := Leaf (i : item) | Pair (o : mark) (body : list tree) (c : mark).

Definition opener_of (c : mark) : option mark :=
  match c with AddC => Some AddO | DelC => Some DelO | SubC => Some SubO | HiC => Some HiO | ComC => Some ComO | _ => None end.
Definition is_opener (m : mark) : bool := match m with AddO | DelO | SubO | HiO | ComO => true | _ => false end.
Definition mark_eqb (a b : mark) : bool :=
  match a, b with
  | AddO, AddO | AddC, AddC | DelO, DelO | DelC, DelC | SubO, SubO | SubD, SubD | SubC, SubC
  | HiO, HiO | HiC, HiC | ComO, ComO | ComC, ComC => true
  | _, _ => false
  end.

(* a frame: an opener on the stack and the trees that came after it, most recent first *)
Definition frame := (mark * list tree)%type.

(* unmatched openers between the matched opener and the closer stay in the text as plain leaves *)
Definition flatten_frame (f : frame) : list tree := snd f ++ [Leaf (M (fst f))].   (* reversed order *)

(* search the stack from the top for the nearest opener that pairs with closer [c];
   [acc] = reversed content gathered from the frames passed over *)
Fixpoint close_search (o : mark) (frames : list frame) (acc : list tree) : option (list tree * list frame) :=
  match frames with
  | [] => None
  | f :: rest =>
    if mark_eqb (fst f) o then Some (acc ++ snd f, rest)
    else close_search o rest (acc ++ flatten_frame f)
  end.

(* state: bottom content (reversed) and the frames above it, top first *)
Definition pstate := (list tree * list frame)%type.

Definition push_tree (t : tree) (st : pstate) : pstate :=
  match snd st with
  | [] => (t :: fst st, [])
  | (o, body) :: rest => (fst st, (o, t :: body) :: rest)
  end.

Definition pair_step (st : pstate) (it : item) : pstate :=
  match it with
  | P _ => push_tree (Leaf it) st
  | M m =>
    if is_opener m then (fst st, (m, []) :: snd st)
    else match opener_of m with
         | None => push_tree (Leaf it) st                       (* the divider ~> *)
         | Some o =>
           match close_search o (snd st) [] with
           | Some (body_rev, rest) => push_tree (Pair o (rev body_rev) m) (fst st, rest)
           | None => push_tree (Leaf it) st                     (* closer without opener *)
           end
         end
  end.

Definition finish (st : pstate) : list tree :=
  rev (fold_left (fun acc f => flatten_frame f ++ acc) (rev (snd st)) [] ++ fst st).

Definition pair_items (l : list item) : list tree := finish (fold_left pair_step l ([], [])).

(* ---- accept / reject: the text that is kept *)
Definition item_text (i : item) : list N := match i with M m => mark_text m | P b => [b] end.

Fixpoint raw_tree (t : tree) : list N :=
  match t with
  | Leaf i => item_text i
  | Pair o body c => mark_text o ++ flat_map raw_tree body ++ mark_text c
  end.

(* index of the LAST top-level divider in a substitution body *)
Definition is_div (t : tree) : bool := match t with Leaf (M SubD) => true | _ => false end.
Fixpoint last_div_from (body : list tree) (i : nat) (best : option nat) : option nat :=
  match body with
  | [] => best
  | t :: r => last_div_from r (S i) (if is_div t then Some i else best)
  end.
Definition last_div (body : list tree) : option nat := last_div_from body O None.

Fixpoint accept_tree (t : tree) : list N :=
  match t with
  | Leaf i => item_text i                                 (* unmatched markers and text stay *)
  | Pair o body _ =>
    let kept := map accept_tree body in
    match o with
    | DelO | ComO => []
    | SubO => match last_div body with
              | Some k => concat (skipn (S k) kept)        (* old text and divider erased *)
              | None => concat kept
              end
    | _ => concat kept
    end
  end.

Fixpoint reject_tree (t : tree) : list N :=
  match t with
  | Leaf i => item_text i
  | Pair o body _ =>
    let kept := map reject_tree body in
    match o with
    | AddO | ComO => []
    | SubO => match last_div body with
              | Some k => concat (firstn k kept)           (* new text, divider and markers erased *)
              | None => []                                 (* no divider: everything back to the opener is erased *)
              end
    | _ => concat kept
    end
  end.

Definition critic_accept (s : list N) : list N := flat_map accept_tree (pair_items (tokenize s)).
Definition critic_reject (s : list N) : list N := flat_map reject_tree (pair_items (tokenize s)).

(* the *_range variants edit only the given byte range *)
Definition critic_accept_range (s : list N) (start len : nat) : list N :=
  firstn start s ++ critic_accept (firstn len (skipn start s)) ++ skipn (start + len) s.
Definition critic_reject_range (s : list N) (start len : nat) : list N :=
  firstn start s ++ critic_reject (firstn len (skipn start s)) ++ skipn (start + len) s.
