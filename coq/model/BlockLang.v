(* The language of "closed" documents for the block-level compositionality theorem (C03): sequences of
   paragraphs, ATX / Setext headings, rules, fenced code blocks and block quotes, each followed by at
   least one empty line, as a DFA over the line kinds of the regenerated parser tables.
   States: 0 start of a document; 1 paragraph lines; 2 block complete (an empty line must follow);
   3,4,5 inside a fence opened with 3,4,5 backticks; 6 quote lines; 7 after a block and its empty line(s).
   Definitions only. *)
From Coq Require Import List ZArith Bool.
Import ListNotations.
From MMD.gen Require Import ParserTables.
Local Open Scope Z_scope.

Definition is_fence_line (t : Z) : bool :=
  existsb (Z.eqb t) [K_FENCE_BACKTICK_3; K_FENCE_BACKTICK_4; K_FENCE_BACKTICK_5;
                     K_FENCE_BACKTICK_START_3; K_FENCE_BACKTICK_START_4; K_FENCE_BACKTICK_START_5].
Definition is_atx (t : Z) : bool := existsb (Z.eqb t) [K_ATX_1; K_ATX_2; K_ATX_3; K_ATX_4; K_ATX_5; K_ATX_6].

Definition block_start (t : Z) : option nat :=
  if t =? K_PLAIN then Some 1%nat
  else if is_atx t || (t =? K_HR) || (t =? K_YAML) || (t =? K_SETEXT_2) then Some 2%nat  (* --- after an empty line: SETEXT_2, falls back to a rule; *)     (* --- on the first line is classified as YAML and becomes a rule *)
  else if (t =? K_FENCE_BACKTICK_START_3) || (t =? K_FENCE_BACKTICK_3) then Some 3%nat     (* with / without an info string *)
  else if (t =? K_FENCE_BACKTICK_START_4) || (t =? K_FENCE_BACKTICK_4) then Some 4%nat
  else if (t =? K_FENCE_BACKTICK_START_5) || (t =? K_FENCE_BACKTICK_5) then Some 5%nat
  else if t =? K_BLOCKQUOTE then Some 6%nat
  else None.

Definition dstep (a : nat) (t : Z) : option nat :=
  match a with
  | 0%nat => block_start t
  | 1%nat => if t =? K_PLAIN then Some 1%nat else if t =? K_EMPTY then Some 7%nat
             else if (t =? K_SETEXT_1) || (t =? K_SETEXT_2) then Some 2%nat else None
  | 2%nat => if t =? K_EMPTY then Some 7%nat else None
  | 3%nat => if t =? K_FENCE_BACKTICK_3 then Some 2%nat else if is_fence_line t then None else Some 3%nat
  | 4%nat => if t =? K_FENCE_BACKTICK_4 then Some 2%nat else if is_fence_line t then None else Some 4%nat
  | 5%nat => if t =? K_FENCE_BACKTICK_5 then Some 2%nat else if is_fence_line t then None else Some 5%nat
  | 6%nat => if (t =? K_BLOCKQUOTE) || (t =? K_PLAIN) then Some 6%nat else if t =? K_EMPTY then Some 7%nat else None
  | 7%nat => if t =? K_EMPTY then Some 7%nat else block_start t
  | _ => None
  end.
Definition FIN : nat := 7.
