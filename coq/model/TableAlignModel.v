(* read_table_column_alignments (writer.c) over an explicit fixed-size array: a write outside the
   array is an error value, not a silent success.  Definitions only. *)
From Coq Require Import List Arith NArith Bool String.
Import ListNotations.

Definition awrite (size : nat) (arr : list N) (i : nat) (v : N) : option (list N) :=
  if Nat.ltb i size then Some (firstn i arr ++ v :: skipn (S i) arr) else None.

(* cells: the alignment letter of every cell of the separator line, in order.
   limit: the bound regenerated from the source (None = no guard in the code) *)
Fixpoint record (size : nat) (limit : option nat) (cells : list N) (counter : nat) (arr : list N) : option (list N * nat) :=
  match cells with
  | [] => option_map (fun a => (a, counter)) (awrite size arr counter 0%N)        (* the terminating NUL *)
  | c :: r =>
    if (match limit with Some l => Nat.leb l counter | None => false end) then record size limit r counter arr
    else match awrite size arr counter c with
         | Some a => record size limit r (S counter) a
         | None => None
         end
  end.

(* the column specification a writer derives from the array: the first [count] letters *)
Definition colspec (res : list N * nat) : list N := firstn (snd res) (fst res).

Definition read_ok (size : nat) (r : string * string * option nat) : bool :=
  match r with
  | (_, k, Some b) => if String.eqb k "cell" then Nat.leb b size else String.eqb k "column"
  | (_, _, None) => false
  end.
