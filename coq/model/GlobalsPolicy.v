(* C05 / C17: classification of the process-global state reachable from the public entry points
   (the reachable sets themselves are regenerated in gen/Globals.v).  Each list is part of the
   trusted base; a symbol outside these lists makes the obligations fail. *)
From Coq Require Import List String Bool.
Import ListNotations.
Open Scope string_scope.

(* Knuth's generator (rng.c): used only to obfuscate mailto links; restarted with its default
   seed on first use in every export (fix a97f6b2), so its content never carries over *)
Definition rng_state := ["ran_x"; "ran_arr_buf"; "ran_arr_ptr"; "ran_arr_dummy"; "ran_arr_started"].
(* the shared token pool (token.c): protocol proved in C18; absent with DISABLE_OBJECT_POOL *)
Definition pool_state := ["token:token_pool"; "token:token_pool_count"].
(* verification hooks (only with -DMMD6_VERIF): H3 verif_parse_trace is read by the library and written only by the
   harness; H2 verif_pair_steps is a per-thread work counter the library increments and never reads *)
Definition hook_state := ["verif_parse_trace"; "verif_pair_steps"].

(* libc functions whose result depends on something other than their arguments *)
Definition nondeterministic_libc := ["rand"; "srand"; "random"; "srandom"; "time"; "clock"; "gettimeofday"; "clock_gettime";
  "localtime"; "gmtime"; "mktime"; "getenv"; "getpid"; "tmpnam"; "mkstemp"; "setlocale"; "drand48"; "lrand48"].
(* the ones the library is allowed to reach: random anchors/labels and generated identifiers
   (only under EXT_RANDOM_* and in packaged formats), dates in packaged formats *)
Definition allowed_nondeterministic := ["rand"; "srand"; "time"; "localtime"; "mktime"].

(* libc functions that are not safe to call from several threads *)
Definition not_mt_safe_libc := ["rand"; "srand"; "strtok"; "localtime"; "gmtime"; "ctime"; "asctime"; "setlocale"; "getenv";
  "tmpnam"; "strerror"; "readdir"; "drand48"; "lrand48"].

Definition mem (x : string) (l : list string) : bool := existsb (String.eqb x) l.
Definition subset (a b : list string) : bool := forallb (fun x => mem x b) a.
Definition minus (a b : list string) : list string := filter (fun x => negb (mem x b)) a.

(* ---- abstract statement: a conversion that restarts the generator before its first use does
   not depend on the generator's earlier content *)
Section NI.
Variables (G I O : Type).
Variable reseed : G -> G.
Hypothesis reseed_overwrites : forall g1 g2, reseed g1 = reseed g2.    (* ran_start writes the whole state *)
Variable body : G -> I -> O * G.
Definition conv (g : G) (i : I) : O * G := body (reseed g) i.
Lemma conv_independent g1 g2 i : conv g1 i = conv g2 i.
Proof. unfold conv. rewrite (reseed_overwrites g1 g2). reflexivity. Qed.
End NI.
