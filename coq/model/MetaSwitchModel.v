(* process_metadata_stack (writer.c) as the MiniC program regenerated in gen/MetaKeys.v: which branch a
   metadata key selects, one loop round, the whole function.  Definitions only. *)
From Coq Require Import List String ZArith NArith Bool.
Import ListNotations.
From MMD.lib Require Import MiniC.
From MMD.gen Require Import MetaKeys.
Local Open Scope string_scope.

Definition EXTV : string := "scratch->extensions".
Definition F_COMPLETE : string := "EXT_COMPLETE".
Definition F_SNIPPET : string := "EXT_SNIPPET".

Definition branch_for (key : list N) : stmt :=
  match find (fun p => bytes_eqb key (fst p)) meta_chain with
  | Some (_, s) => s
  | None => meta_default
  end.

Section Run.
Variable atoi_f : list N -> Z.
Variable label_f : list N -> list N.

(* one round of the loop: m = (key, value) *)
Definition step (st : state) (m : list N * list N) : state := exec (snd m) atoi_f label_f (branch_for (fst m)) st.
Definition loop (ms : list (list N * list N)) (st : state) : state := fold_left step ms st.

Definition guarded (st : state) : bool := existsb (has_flag (st EXTV)) meta_guard_flags.

(* the whole function: nothing happens when metadata is disabled *)
Definition process (ms : list (list N * list N)) (st : state) : state :=
  if guarded st then st else exec [] atoi_f label_f meta_post (loop ms (exec [] atoi_f label_f meta_pre st)).
End Run.

(* what the decision about the wrapper depends on *)
Definition effect_of (key : list N) : option bool := flag_effect EXTV F_COMPLETE F_SNIPPET (branch_for key).
Definition is_control (key : list N) : bool := match effect_of key with Some false => true | _ => false end.

Definition settings_vars : list string :=
  ["header_level"; "temp_char"; "scratch->language"; "scratch->quotes_lang"; "scratch->output_format"; "scratch->bibtex_file"; EXTV].

(* the wrapper logic of mmd_engine_export_token_tree for one format: start and end are the only calls
   guarded by EXT_COMPLETE, they are first and last, everything in between is unconditional *)
Definition prefixs (p s : string) : bool := String.eqb p (substring 0 (String.length p) s).
Fixpoint middle_ok (items : list (string * string)) : bool :=
  match items with
  | [] => false
  | [(g, f)] => String.eqb g F_COMPLETE && prefixs "mmd_end_complete_" f
  | (g, f) :: r => String.eqb g "" && middle_ok r
  end.
Definition wrapper_ok (items : list (string * string)) : bool :=
  match items with
  | (g, f) :: r => String.eqb g F_COMPLETE && prefixs "mmd_start_complete_" f && middle_ok r
  | [] => false
  end.
Definition case_for (fmt : string) : option (list (string * string)) :=
  option_map snd (find (fun c => existsb (String.eqb fmt) (fst c)) export_cases).
(* assignments preceding the calls (scratch->remember_assets = true ...) are not calls *)
Definition calls_only (items : list (string * string)) : list (string * string) :=
  filter (fun it => negb (prefixs "=" (snd it))) items.
