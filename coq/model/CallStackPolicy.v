(* C07: the functions that recurse without passing a depth guard on the tree as found (known
   finding: their depth follows the token tree / the data, so deep nesting overflows the stack).
   A function outside this list that becomes recursive without a guard breaks the obligation. *)
From Coq Require Import List String.
Import ListNotations.
Open Scope string_scope.
Definition known_unguarded_recursive : list string := [
  "ac_trie_node_prepare"; "trie_node_insert"; "trie_node_search"; "match_free";        (* trie depth = pattern length *)
  "mmd_transclude_source";                                                              (* bounded by the open-file stack: C13 *)
  "automatic_search"; "mmd_assign_ambidextrous_tokens_in_block"; "pair_emphasis_tokens"; "whitespace_fix";
  "mmd_pair_tokens_in_block"; "mmd_pair_tokens_in_chain";
  "strip_line_tokens_from_block"; "strip_line_tokens_from_deflist"; "strip_line_tokens_from_table";
  "traverse_for_images"; "print_token"; "print_token_raw"; "print_token_tree"; "print_token_tree_raw";
  "mmd_export_token_html"; "mmd_export_token_html_raw"; "mmd_export_token_tree_html_raw"; "mmd_export_toc_entry_html";
  "mmd_export_token_latex"; "mmd_export_token_latex_raw"; "mmd_export_token_latex_tt";
  "mmd_export_token_tree_latex_raw"; "mmd_export_token_tree_latex_tt";
  "mmd_export_token_opendocument"; "mmd_export_token_opendocument_raw"; "mmd_export_token_tree_opendocument_raw";
  "mmd_export_toc_entry_opendocument"; "epub_export_nav_entry" ].
Definition expected_guards : list string := [
  "mmd_parse_token_chain"; "token_pairs_match_pairs_inside_token"; "mmd_export_token_tree_html"; "mmd_export_token_tree_latex";
  "mmd_export_token_tree_beamer"; "mmd_export_token_tree_memoir"; "mmd_export_token_tree_opendocument";
  "mmd_export_token_tree_opml"; "mmd_export_token_tree_itmz" ].
