(* Executable model of the note bookkeeping behind HTML anchors (writer.c: *_from_bracket /
   mark_*_as_used; html.c: PAIR_BRACKET_FOOTNOTE/GLOSSARY/CITATION, mmd_export_*_list_html) and of the
   text a heading's id, its automatic link target and its table-of-contents target are computed from
   (writer.c: label_from_header, process_header_to_links, manual_label_from_header).
   A document is abstracted to the order in which notes are called: the body is a list of calls, the
   content of every note definition is a list of calls.  An inline note is a definition with a single
   call site.  What is observed is the sequence of anchors the writer emits: calls (href, and id on
   first use), list entries (id) and back links (href).  Definitions only. *)
From Coq Require Import List Arith Bool NArith.
Import ListNotations.

Inductive kind := Fn | Gl | Cn.
Definition kind_eqb (a b : kind) : bool :=
  match a, b with Fn, Fn | Gl, Gl | Cn, Cn => true | _, _ => false end.

(* [Call k d]: a call of definition number d of kind k;  [NoCite d]: the "[Not cited][#key]" form *)
Inductive item := Call (k : kind) (d : nat) | NoCite (d : nat).

Record adoc := mkdoc { body : list item; fdefs : list (list item); gdefs : list (list item); cdefs : list (list item) }.
Definition defs (D : adoc) (k : kind) : list (list item) :=
  match k with Fn => fdefs D | Gl => gdefs D | Cn => cdefs D end.
Definition content (D : adoc) (k : kind) (d : nat) : list item := nth d (defs D k) [].

(* scratch->used_footnotes / used_glossaries / used_citations: definitions in order of first use *)
Record st := mkst { uf : list nat; ug : list nat; uc : list nat }.
Definition used (s : st) (k : kind) : list nat := match k with Fn => uf s | Gl => ug s | Cn => uc s end.
Definition push (s : st) (k : kind) (d : nat) : st :=
  match k with
  | Fn => mkst (uf s ++ [d]) (ug s) (uc s)
  | Gl => mkst (uf s) (ug s ++ [d]) (uc s)
  | Cn => mkst (uf s) (ug s) (uc s ++ [d])
  end.
Definition init : st := mkst [] [] [].

Fixpoint index_of (d : nat) (l : list nat) : option nat :=
  match l with
  | [] => None
  | x :: r => if Nat.eqb x d then Some O else option_map S (index_of d r)
  end.

(* anchors in output order *)
Inductive ev :=
| ECall (k : kind) (n : nat) (first : bool)     (* <a href="#kn:n"> and, on first use, id="knref:n" *)
| EEntry (k : kind) (n : nat)                   (* <li id="kn:n"> *)
| EBack (k : kind) (n : nat).                   (* <a href="#knref:n"> closing the entry *)

Definition do_item (s : st) (it : item) : st * list ev :=
  match it with
  | Call k d =>
    match index_of d (used s k) with
    | Some i => (s, [ECall k (S i) false])
    | None => (push s k d, [ECall k (S (length (used s k))) true])
    end
  | NoCite d =>
    match index_of d (uc s) with
    | Some _ => (s, [])
    | None => (push s Cn d, [])
    end
  end.

Fixpoint do_items (s : st) (its : list item) : st * list ev :=
  match its with
  | [] => (s, [])
  | it :: r => let '(s1, e1) := do_item s it in
               let '(s2, e2) := do_items s1 r in (s2, e1 ++ e2)
  end.

(* for (i = 0; i < used->size; ++i): the bound is read again on every round, so entries first used
   inside an entry of the same list are still exported *)
Fixpoint list_loop (D : adoc) (k : kind) (fuel i : nat) (s : st) : option (st * list ev) :=
  match fuel with
  | O => None
  | S f =>
    match nth_error (used s k) i with
    | None => Some (s, [])
    | Some d =>
      let '(s1, e1) := do_items s (content D k d) in
      match list_loop D k f (S i) s1 with
      | Some (s2, e2) => Some (s2, EEntry k (S i) :: e1 ++ EBack k (S i) :: e2)
      | None => None
      end
    end
  end.

Definition total_defs (D : adoc) : nat := length (fdefs D) + length (gdefs D) + length (cdefs D).

(* mmd_engine_export_token_tree: the body, then the footnote, glossary and citation lists *)
Definition export (D : adoc) : option (st * list ev) :=
  let fuel := S (total_defs D) in
  let '(s0, e0) := do_items init (body D) in
  match list_loop D Fn fuel 0 s0 with
  | None => None
  | Some (s1, e1) =>
    match list_loop D Gl fuel 0 s1 with
    | None => None
    | Some (s2, e2) =>
      match list_loop D Cn fuel 0 s2 with
      | None => None
      | Some (s3, e3) => Some (s3, e0 ++ e1 ++ e2 ++ e3)
      end
    end
  end.

(* ---- documents *)
Definition item_ok (D : adoc) (it : item) : bool :=
  match it with
  | Call k d => Nat.ltb d (length (defs D k))
  | NoCite d => Nat.ltb d (length (cdefs D))
  end.
Definition wf_doc (D : adoc) : bool :=
  forallb (item_ok D) (body D) &&
  forallb (forallb (item_ok D)) (fdefs D) && forallb (forallb (item_ok D)) (gdefs D) && forallb (forallb (item_ok D)) (cdefs D).

Definition is_nocite (it : item) : bool := match it with NoCite _ => true | _ => false end.
Definition nocite_free (D : adoc) : bool :=
  forallb (fun it => negb (is_nocite it)) (body D) &&
  forallb (forallb (fun it => negb (is_nocite it))) (fdefs D) &&
  forallb (forallb (fun it => negb (is_nocite it))) (gdefs D) &&
  forallb (forallb (fun it => negb (is_nocite it))) (cdefs D).

(* the lists are written in the order footnotes, glossary, citations and never reopened: an entry can
   only be listed when its first use is not inside a list that comes later *)
Definition calls_kind (k : kind) (it : item) : bool := match it with Call k' _ => kind_eqb k k' | NoCite _ => kind_eqb k Cn end.
Definition forward_only (D : adoc) : bool :=
  forallb (forallb (fun it => negb (calls_kind Fn it))) (gdefs D) &&
  forallb (forallb (fun it => negb (calls_kind Fn it) && negb (calls_kind Gl it))) (cdefs D).

(* ---- observations on a trace *)
Definition entries (k : kind) (tr : list ev) : list nat :=
  flat_map (fun e => match e with EEntry k' n => if kind_eqb k k' then [n] else [] | _ => [] end) tr.
Definition firsts (k : kind) (tr : list ev) : list nat :=
  flat_map (fun e => match e with ECall k' n true => if kind_eqb k k' then [n] else [] | _ => [] end) tr.
Definition calls (k : kind) (tr : list ev) : list nat :=
  flat_map (fun e => match e with ECall k' n _ => if kind_eqb k k' then [n] else [] | _ => [] end) tr.
