(* The "obvious string model": an ideal string is a list of non-NUL bytes; positions and
   lengths are mathematical naturals (no wrap-around); SIZE_MAX is the "to the end" length. *)
From MMD.lib Require Import Bytes.
From MMD.model Require Import DStringModel.
Local Open Scope N_scope.

Definition istr := list byte.

Definition clampN (pos : N) (c : istr) : nat := N.to_nat (N.min pos (Nlen c)).

Definition sp_insert (c : istr) (pos : N) (p : list byte) : istr :=
  firstn (clampN pos c) c ++ p ++ skipn (clampN pos c) c.

(* erase [l] bytes at [pos]; out-of-range [pos] or zero [l]: unchanged; a range reaching
   the end (in unbounded arithmetic) truncates *)
Definition sp_erase (c : istr) (pos l : N) : istr :=
  if (Nlen c <? pos) || (l =? 0) then c else
  if Nlen c <=? pos + l then firstn (N.to_nat pos) c
  else firstn (N.to_nat pos) c ++ skipn (N.to_nat (pos + l)) c.

Definition sp_substr (c : istr) (start l : N) : option (list byte) :=
  if Nlen c <? start then None else
  if l =? SIZE_MAX then Some (skipn (N.to_nat start) c) else
  if Nlen c <? start + l then None else Some (sub_list c (N.to_nat start) (N.to_nat l)).

(* replace, left to right, the non-overlapping occurrences of [o] in [t] that begin at an
   offset below [limit]; returns the new text and the number of replacements *)
Fixpoint sp_rep (fuel : nat) (t : list byte) (limit : nat) (o r : list byte) : list byte * nat :=
  match fuel with
  | O => (t, O)
  | S f =>
    match find_sub o t with
    | None => (t, O)
    | Some i =>
      if (i <? limit)%nat then
        let '(t', k) := sp_rep f (skipn (i + length o) t) (limit - (i + length o)) o r in
        (firstn i t ++ r ++ t', S k)
      else (t, O)
    end
  end.

Definition sp_replace (c : istr) (pos l : N) (o r : list byte) : istr * Z :=
  if (Nlen c <? pos) || (Nlen o =? 0) then (c, 0%Z) else
  let p := N.to_nat pos in
  let limit := if Nlen c - pos <? l then (length c - p)%nat else N.to_nat l in
  let '(t', k) := sp_rep (S (length c)) (skipn p c) limit o r in
  (firstn p c ++ t', (Z.of_nat k * (Z.of_nat (length r) - Z.of_nat (length o)))%Z).

Definition sp_step (c : istr) (o : op) : istr * out :=
  match o with
  | OAppend p => (c ++ p, ONone)
  | OAppendC b => (if b =? 0 then c else c ++ [b], ONone)
  | OAppendArr p n => (if n =? SIZE_MAX then c ++ p else c ++ firstn (N.to_nat n) p, ONone)
  | OPrepend p => (p ++ c, ONone)
  | OInsert pos p => (sp_insert c pos p, ONone)
  | OInsertC pos b => (if b =? 0 then c else sp_insert c pos [b], ONone)
  | OInsertArr pos p n => (sp_insert c pos (if n =? SIZE_MAX then p else firstn (N.to_nat n) p), ONone)
  | OErase pos l => (sp_erase c pos l, ONone)
  | OSubstr st l => (c, OStr (sp_substr c st l))
  | OReplace pos l o r => let x := sp_replace c pos l o r in (fst x, ODelta (snd x))
  end.

(* well-formed arguments: payloads are NUL-free byte strings, array reads stay inside the array *)
Definition op_ok (o : op) : bool :=
  match o with
  | OAppend p | OPrepend p | OInsert _ p => nonul p
  | OAppendC _ | OInsertC _ _ | OErase _ _ | OSubstr _ _ => true
  | OAppendArr p n | OInsertArr _ p n => nonul p && ((n =? SIZE_MAX) || (n <=? Nlen p))
  | OReplace _ _ o r => nonul o && nonul r
  end.
