(* C15 / C07: model of the pair matcher, src/token_pairs.c:token_pairs_match_pairs_inside_token, over the token heap
   of TokenHeap.v.  The three per-token flags the matcher reads (can_open, can_close, unmatched) are kept in a list
   parallel to the heap; the pairing tables of a token_pair_engine are functions.  The opener_count array of the C
   code is a function of the stack (number of entries above start_counter with a given type: incremented at push,
   decremented at pop with the type the token has at that moment, which never changes while it is on the stack), so
   the large-stack shortcut is modelled as "some entry above start_counter can pair with this closer".
   Definitions only (theorems: proofs/PairMatchProofs.v). *)
From MMD.lib Require Import Bytes.
From MMD.model Require Import TokenHeap.
Local Open Scope N_scope.

Record tflags := mkfl { can_open : bool; can_close : bool; unmatched : bool }.

Record penv := mkenv {
  can_open_pair : N -> bool; can_close_pair : N -> bool; pair_type : N -> N -> N;
  empty_allowed : N -> bool; match_len : N -> bool; should_prune : N -> bool }.

Record pmstate := mkps { hp : heap; fl : list tflags }.

Definition flag (s : pmstate) (i : N) : option tflags := if i =? 0 then None else nth_error (fl s) (idx i).
Definition set_flag (s : pmstate) (i : N) (g : tflags -> tflags) : pmstate := mkps (hp s) (upd_nth (fl s) (idx i) g).

Definition kLargeStackThreshold : N := 1000.
Definition kMaxPairRecursiveDepth : N := 1000.

(* token_pair_mate(a, b) *)
Definition pair_mate_f (s : pmstate) (a b : N) : option pmstate :=
  if (a =? 0) || (b =? 0) then Some s else
  let? h := wr (hp s) a Fmt b in
  let s := set_flag (mkps h (fl s)) a (fun f => mkfl (can_open f) (can_close f) false) in
  let? h := wr (hp s) b Fmt a in
  Some (set_flag (mkps h (fl s)) b (fun f => mkfl (can_open f) (can_close f) false)).

(* token_prune_graft also copies the flags of first to the new child and clears can_open / can_close of the container *)
Definition graft_f (s : pmstate) (first last ptype : N) : option pmstate :=
  let? ff := flag s first in
  let? h := token_prune_graft (hp s) first last ptype in
  let s := mkps h (fl s ++ [ff]) in
  Some (set_flag s first (fun f => mkfl false false (unmatched f))).

(* the scan for an opener: [above] = the stack entries above start_counter, top first, still to be looked at;
   [popped] = how many entries (from the top) have been passed.  Result: None = no opener (or the scan was abandoned),
   Some (peek, k) = peek is the opener, k entries above it. *)
Fixpoint find_opener (e : penv) (h : heap) (walker : N) (above : list N) (k : nat) : option (option (N * nat)) :=
  match above with
  | [] => Some None
  | peek :: rest =>
      let? pty := rd h peek Fty in let? wty := rd h walker Fty in
      let pt := pair_type e pty wty in
      if pt =? 0 then find_opener e h walker rest (S k) else
      let? pnx := rd h peek Fnx in let? pst := rd h peek Fst in let? pln := rd h peek Fln in
      let? wst := rd h walker Fst in let? wln := rd h walker Fln in
      if negb (empty_allowed e pt) && (pnx =? walker) && (wadd pst pln =? wst) then Some None
      else if match_len e pt && negb (pln =? wln) then find_opener e h walker rest (S k)
      else Some (Some (peek, k))
  end.

(* what the loop body does with one token once its children have been dealt with: try to close, then to open.
   [above] = the entries of the shared stack that belong to this call (above start_counter), top first.
   Result: the state, the stack and the token the walk continues from (the new container after a graft). *)
Definition try_close (e : penv) (parent : N) (base : nat) (s : pmstate) (stk : list N) (walker : N) : option (pmstate * list N * N) :=
  let? wf := flag s walker in
  let? wty := rd (hp s) walker Fty in
  let above := firstn (length stk - base) stk in
  if can_close wf && can_close_pair e wty && unmatched wf then
    let skip := (kLargeStackThreshold <? N.of_nat (length above)) &&
                negb (existsb (fun p => match rd (hp s) p Fty with Some pty => negb (pair_type e pty wty =? 0) | None => false end) above) in
    if skip then Some (s, stk, walker) else
    let? fo := find_opener e (hp s) walker above 0 in
    match fo with
    | None => Some (s, stk, walker)
    | Some (peek, k) =>
        let? s := pair_mate_f s peek walker in
        let stk := skipn (S k) stk in
        let? pty := rd (hp s) peek Fty in
        let pt := pair_type e pty wty in
        if should_prune e pt then
          let? ppv := rd (hp s) peek Fpv in
          let? s := graft_f s peek walker pt in
          let? h := (if ppv =? 0 then wr (hp s) parent Fch peek else Some (hp s)) in
          Some (mkps h (fl s), stk, peek)
        else Some (s, stk, walker)
    end
  else Some (s, stk, walker).

Definition try_open (e : penv) (s : pmstate) (stk : list N) (walker : N) : option (list N) :=
  let? wf := flag s walker in
  let? wty := rd (hp s) walker Fty in
  Some (if can_open wf && can_open_pair e wty && unmatched wf then walker :: stk else stk).

Section Walk.
(* the recursive call for a token that has children *)
Variable rec : pmstate -> list N -> N -> option (pmstate * list N).
Variables (e : penv) (parent : N) (base : nat).

Fixpoint walk (n : nat) (s : pmstate) (stk : list N) (walker : N) {struct n} : option (pmstate * list N) :=
  match n with
  | O => None
  | S n =>
    if walker =? 0 then Some (s, stk) else
    let? wch := rd (hp s) walker Fch in
    let? r := (if wch =? 0 then Some (s, stk) else rec s stk walker) in
    let '(s, stk) := r in
    let? r := try_close e parent base s stk walker in
    let '(s, stk, walker) := r in
    let? stk := try_open e s stk walker in
    let? wnx := rd (hp s) walker Fnx in
    walk n s stk wnx
  end.
End Walk.

(* one call of token_pairs_match_pairs_inside_token; [stk] = the whole shared stack (top first) *)
Fixpoint match_pairs (fuel : nat) (e : penv) (s : pmstate) (stk : list N) (parent depth : N) {struct fuel} : option (pmstate * list N) :=
  match fuel with
  | O => None
  | S fuel =>
    if depth =? kMaxPairRecursiveDepth then Some (s, stk) else
    let base := length stk in
    let? first := rd (hp s) parent Fch in
    let? r := walk (fun s stk w => match_pairs fuel e s stk w (depth + 1)) e parent base (S (length (hp s)) * 2)%nat s stk first in
    let '(s, stk) := r in
    Some (s, skipn (length stk - base) stk)
  end.

(* ---- scripts for the correspondence check: build tokens, chains and a pairing engine, then run the matcher *)
Inductive pm_op :=
| PNew (type start len : N)
| PChain (head t : N)
| PParent (child type : N)
| PFlags (t : N) (co cc um : bool)
| PPair (open close pair opts : N)          (* token_pair_engine_add_pairing; opts: 1 allow empty, 2 match length, 4 prune *)
| PMatch (parent : N).

Definition dflags := mkfl true true true.

Record pairing := mkpr { p_open : N; p_close : N; p_pair : N; p_opts : N }.

(* the tables after the add_pairing calls, in order (a later call overwrites pair_type of the same opener / closer and
   only ever sets option bits of its pair type) *)
Definition env_of (ps : list pairing) : penv :=
  mkenv (fun t => existsb (fun p => p_open p =? t) ps)
        (fun t => existsb (fun p => p_close p =? t) ps)
        (fun o c => match find (fun p => (p_open p =? o) && (p_close p =? c)) (rev ps) with Some p => p_pair p | None => 0 end)
        (fun t => existsb (fun p => (p_pair p =? t) && N.testbit (p_opts p) 0) ps)
        (fun t => existsb (fun p => (p_pair p =? t) && N.testbit (p_opts p) 1) ps)
        (fun t => existsb (fun p => (p_pair p =? t) && N.testbit (p_opts p) 2) ps).

Definition pad_flags (s : pmstate) : pmstate :=
  mkps (hp s) (fl s ++ repeat dflags (length (hp s) - length (fl s))).

Definition pm_step (st : pmstate * list pairing) (o : pm_op) : option (pmstate * list pairing) :=
  let (s, ps) := st in
  match o with
  | PNew a b c => Some (pad_flags (mkps (fst (token_new (hp s) a b c)) (fl s)), ps)
  | PChain a b => let? h := token_chain_append (hp s) a b in Some (mkps h (fl s), ps)
  | PParent a b => let? r := token_new_parent (hp s) a b in Some (pad_flags (mkps (fst r) (fl s)), ps)
  | PFlags t a b c => match flag s t with Some _ => Some (set_flag s t (fun _ => mkfl a b c), ps) | None => None end
  | PPair a b c d => Some (s, ps ++ [mkpr a b c d])
  | PMatch p =>
      let? r := match_pairs (S (length (hp s))) (env_of ps) s [] p 0 in
      Some (fst r, ps)
  end.

Fixpoint pm_run (st : pmstate * list pairing) (ops : list pm_op) (done : N) : pmstate * N * bool :=
  match ops with
  | [] => (fst st, done, true)
  | o :: r => match pm_step st o with
              | Some st' => pm_run st' r (done + 1)
              | None => (fst st, done, false)
              end
  end.
