(* C03: the documented rendering, as a specification.
   Abstract documents over the construct grammar (paragraphs, ATX / Setext headings with their id,
   emphasis / strong, code spans, fenced and indented code, block quotes, tight and loose bulleted /
   numbered lists with one nested level, rules, hard breaks, inline and automatic links, images,
   backslash escapes, entities, tables with alignment and column spans, super/subscript, math, smart
   punctuation);  [render] gives the HTML the syntax guide prescribes for that structure, [spell]
   writes the structure down as MultiMarkdown text in a chosen spelling (marker characters, leading
   spaces, closing #, line endings).  The check converts [spell d] with the real program and compares
   with [render d].  Definitions only. *)
From Coq Require Import List String Ascii NArith Bool Arith.
Import ListNotations.
From MMD.lib Require Import Bytes.
From MMD.model Require Import LabelModel.
Local Open Scope N_scope.

Definition str (s : string) : list N := map (fun a => N.of_nat (nat_of_ascii a)) (list_ascii_of_string s).
Fixpoint join (sep : list N) (l : list (list N)) : list N :=
  match l with
  | [] => []
  | [x] => x
  | x :: r => x ++ sep ++ join sep r
  end.
Definition NL : list N := [10].

(* ---- abstract documents *)
Inductive inl :=
| IText (w : list N)                    (* words: letters, digits, blanks, commas, full stops *)
| IEmph (l : list inl)
| IStrong (l : list inl)
| ICode (t : list N)                    (* code span; may contain reserved characters *)
| ILink (txt : list inl) (url : list N) (title : option (list N))
| IAuto (url : list N)
| IImage (alt : list N) (url : list N) (title : option (list N))
| IEsc (c : N)                          (* backslash escape of a punctuation character *)
| IAmp | ILt | IGt                      (* a lone reserved character between blanks *)
| IEntity (name : list N)               (* &name; is passed through *)
| IBreak                                (* hard line break *)
| ISup (t : list N) | ISub (t : list N)
| IMath (t : list N)
| IQuote (l : list inl)                 (* "..." *)
| IDash2 | IDash3 | IEllipsis
| IApos (a b : list N)                  (* a'b inside a word *)
| IRefLink (txt : list inl) (label url : list N) (title : option (list N))   (* [txt][label], defined at the end *)
| IRefImage (alt label url : list N) (title : option (list N))               (* ![alt][label] *)
| IFoot (k : nat)                       (* call of footnote number k of the document (used once) *)
| ISoft                                 (* line break inside a paragraph that is not a hard break *)
| ITight (l : list inl).                (* elements written without blanks between them: _word_'s, well-*known* *)

Inductive align := ALeft | ACenter | ARight | ANone.
(* a table cell: content and the number of columns it spans *)
Definition cell := (list inl * nat)%type.

Inductive blk :=
| BPara (l : list inl)
| BAtx (level : nat) (l : list inl)
| BSetext (level : nat) (l : list inl)
| BHr
| BFenced (lang : list N) (lines : list (list N))
| BIndented (lines : list (list N))
| BQuote (paras : list (list inl))                         (* a quote of paragraphs *)
| BList (ordered loose : bool) (items : list (list inl * (bool * list (list inl))))   (* item text, nested bullet list (loose?, items) *)
| BTable (aligns : list align) (header : list cell) (rows : list (list cell))
| BFigure (alt url : list N) (title : option (list N))        (* an image alone in its paragraph *)
| BDefList (items : list (list inl * list (list inl)))         (* term, definitions *)
| BHtml (lines : list (list N)).                               (* a raw HTML block is passed through *)

Record opts := mkopts { smart : bool; compat : bool }.
(* spelling: bullet marker, emphasis character, leading spaces before block markers (0..3), closing #,
   rule spelling (0..3), tab instead of four spaces, CRLF line endings *)
Record spelling := mksp { bullet : N; emch : N; lead : nat; closing : nat; rule : nat; tabs : bool; crlf : bool }.

(* ---- HTML escaping of text and attribute values *)
Definition hesc1 (b : N) : list N :=
  if b =? 38 then str "&amp;" else if b =? 60 then str "&lt;" else if b =? 62 then str "&gt;" else if b =? 34 then str "&quot;" else [b].
Definition hesc (t : list N) : list N := flat_map hesc1 t.

Section Render.
Variable o : opts.
Variable env : list nat.                (* footnotes in order of first use *)

Fixpoint pos_of (k : nat) (l : list nat) : nat := match l with [] => O | x :: r => if Nat.eqb x k then 1%nat else S (pos_of k r) end.
Definition digit' (n : nat) : list N := [N.of_nat (48 + n)].

Fixpoint rinl (i : inl) : list N :=
  match i with
  | IText w => w
  | IEmph l => str "<em>" ++ join [32] (map rinl l) ++ str "</em>"
  | IStrong l => str "<strong>" ++ join [32] (map rinl l) ++ str "</strong>"
  | ICode t => str "<code>" ++ hesc t ++ str "</code>"
  | ILink txt url title =>
    str "<a href=""" ++ hesc url ++ str """" ++
    (match title with Some t => str " title=""" ++ hesc t ++ str """" | None => [] end) ++ str ">" ++
    join [32] (map rinl txt) ++ str "</a>"
  | IAuto url => str "<a href=""" ++ hesc url ++ str """>" ++ hesc url ++ str "</a>"
  | IImage alt url title =>
    str "<img src=""" ++ hesc url ++ str """ alt=""" ++ hesc alt ++ str """" ++
    (match title with Some t => str " title=""" ++ hesc t ++ str """" | None => [] end) ++ str " />"
  | IEsc c => hesc1 c
  | IAmp => str "&amp;" | ILt => str "&lt;" | IGt => str "&gt;"
  | IEntity n => [38] ++ n ++ [59]
  | IBreak => str "<br />" ++ NL
  | ISup t => str "<sup>" ++ t ++ str "</sup>"
  | ISub t => str "<sub>" ++ t ++ str "</sub>"
  | IMath t => str "<span class=""math"">\(" ++ hesc t ++ str "\)</span>"
  | IQuote l => if smart o then str "&#8220;" ++ join [32] (map rinl l) ++ str "&#8221;"
                else str "&quot;" ++ join [32] (map rinl l) ++ str "&quot;"
  | IDash2 => if smart o then str "&#8211;" else str "--"
  | IDash3 => if smart o then str "&#8212;" else str "---"
  | IEllipsis => if smart o then str "&#8230;" else str "..."
  | IApos a b => a ++ (if smart o then str "&#8217;" else str "'") ++ b
  | IRefLink txt _ url title =>
    str "<a href=""" ++ hesc url ++ str """" ++
    (match title with Some t => str " title=""" ++ hesc t ++ str """" | None => [] end) ++ str ">" ++
    join [32] (map rinl txt) ++ str "</a>"
  | IRefImage alt label url title =>
    str "<img src=""" ++ hesc url ++ str """ alt=""" ++ hesc alt ++ str """" ++
    (if compat o then [] else str " id=""" ++ label_from_string label ++ str """") ++
    (match title with Some t => str " title=""" ++ hesc t ++ str """" | None => [] end) ++ str " />"
  | IFoot k =>
    let n := digit' (pos_of k env) in
    str "<a href=""#fn:" ++ n ++ str """ id=""fnref:" ++ n ++ str """ title=""see footnote"" class=""footnote""><sup>" ++ n ++ str "</sup></a>"
  | ISoft => NL
  | ITight l => flat_map rinl l
  end.

(* inline elements of one run are separated by single blanks; a hard break ends its line *)
Fixpoint rinls (l : list inl) : list N :=
  match l with
  | [] => []
  | [i] => rinl i
  | IBreak :: r => rinl IBreak ++ rinls r
  | ISoft :: r => rinl ISoft ++ rinls r
  | i :: ((IBreak :: _) as r) => rinl i ++ rinls r
  | i :: ((ISoft :: _) as r) => rinl i ++ rinls r
  | i :: ((IFoot _ :: _) as r) => rinl i ++ rinls r
  | i :: r => rinl i ++ [32] ++ rinls r
  end.
End Render.

(* ---- the source text of inline elements *)
Section Spell.
Variable sp : spelling.

Fixpoint sinl (i : inl) : list N :=
  match i with
  | IText w => w
  | IEmph l => [emch sp] ++ join [32] (map sinl l) ++ [emch sp]
  | IStrong l => [emch sp; emch sp] ++ join [32] (map sinl l) ++ [emch sp; emch sp]
  | ICode t => [96] ++ t ++ [96]
  | ILink txt url title =>
    [91] ++ join [32] (map sinl txt) ++ str "](" ++ url ++
    (match title with Some t => str " """ ++ t ++ str """" | None => [] end) ++ [41]
  | IAuto url => [60] ++ url ++ [62]
  | IImage alt url title =>
    str "![" ++ alt ++ str "](" ++ url ++ (match title with Some t => str " """ ++ t ++ str """" | None => [] end) ++ [41]
  | IEsc c => [92; c]
  | IAmp => [38] | ILt => [60] | IGt => [62]
  | IEntity n => [38] ++ n ++ [59]
  | IBreak => [32; 32; 10]
  | ISup t => [94] ++ t ++ [94]
  | ISub t => [126] ++ t ++ [126]
  | IMath t => str "\\(" ++ t ++ str "\\)"
  | IQuote l => [34] ++ join [32] (map sinl l) ++ [34]
  | IDash2 => str "--" | IDash3 => str "---" | IEllipsis => str "..."
  | IApos a b => a ++ [39] ++ b
  | IRefLink txt label _ _ => [91] ++ join [32] (map sinl txt) ++ str "][" ++ label ++ [93]
  | IRefImage alt label _ _ => str "![" ++ alt ++ str "][" ++ label ++ [93]
  | IFoot k => str "[^fn" ++ [N.of_nat (48 + k)] ++ [93]
  | ISoft => [10]
  | ITight l => flat_map sinl l
  end.

Fixpoint sinls (l : list inl) : list N :=
  match l with
  | [] => []
  | [i] => sinl i
  | IBreak :: r => sinl IBreak ++ sinls r
  | ISoft :: r => sinl ISoft ++ sinls r
  | i :: ((IBreak :: _) as r) => sinl i ++ sinls r
  | i :: ((ISoft :: _) as r) => sinl i ++ sinls r
  | i :: ((IFoot _ :: _) as r) => sinl i ++ sinls r
  | i :: r => sinl i ++ [32] ++ sinls r
  end.
End Spell.

(* ---- blocks *)
Definition digit (n : nat) : list N := [N.of_nat (48 + n)].
Definition style_of (a : align) : list N :=
  match a with
  | ALeft => str " style=""text-align:left;"""
  | ACenter => str " style=""text-align:center;"""
  | ARight => str " style=""text-align:right;"""
  | ANone => []
  end.

Section RenderB.
Variable o : opts.
Variable sp : spelling.      (* the id of a heading is computed from its source text *)
Variable env : list nat.     (* footnotes in order of first use *)

Definition heading (level : nat) (l : list inl) : list N :=
  str "<h" ++ digit level ++
  (if compat o then [] else str " id=""" ++ label_from_string (sinls sp l) ++ str """") ++ str ">" ++
  rinls o env l ++ str "</h" ++ digit level ++ str ">".

Definition code_block (lang : list N) (lines : list (list N)) : list N :=
  str "<pre><code" ++ (match lang with [] => [] | _ => str " class=""" ++ lang ++ str """" end) ++ str ">" ++
  flat_map (fun ln => hesc ln ++ NL) lines ++ str "</code></pre>".

Definition tight_items (items : list (list inl)) : list N :=
  flat_map (fun it => str "<li>" ++ rinls o env it ++ str "</li>" ++ NL) items.

Definition loose_items (items : list (list inl)) : list N :=
  flat_map (fun it => str "<li><p>" ++ rinls o env it ++ str "</p></li>" ++ NL) items.

(* the nested list is tight or loose on its own account, whatever the list around it is *)
Definition item (loose : bool) (it : list inl * (bool * list (list inl))) : list N :=
  let '(txt, (subloose, sub)) := it in
  str "<li>" ++ (if loose then str "<p>" ++ rinls o env txt ++ str "</p>" else rinls o env txt) ++
  (match sub with
   | [] => []
   | _ => NL ++ NL ++ str "<ul>" ++ NL ++ (if subloose then loose_items sub else tight_items sub) ++ str "</ul>"
   end) ++ str "</li>" ++ NL.

(* cells of a row: every cell carries the alignment of the column it starts in *)
Fixpoint row_cells (tag : list N) (aligns : list align) (cells : list cell) : list N :=
  match cells with
  | [] => []
  | (c, span) :: r =>
    [9; 60] ++ tag ++ style_of (hd ANone aligns) ++
    (if Nat.ltb 1 span then str " colspan=""" ++ digit span ++ str """" else []) ++
    str "> " ++ rinls o env c ++ str " </" ++ tag ++ str ">" ++ NL ++
    row_cells tag (skipn span aligns) r
  end.
Definition row (tag : list N) (aligns : list align) (cells : list cell) : list N :=
  str "<tr>" ++ NL ++ row_cells tag aligns cells ++ str "</tr>" ++ NL.

Definition rblk (b : blk) : list N :=
  match b with
  | BPara l => str "<p>" ++ rinls o env l ++ str "</p>"
  | BAtx n l => heading n l
  | BSetext n l => heading n l
  | BHr => str "<hr />"
  | BFenced lang lines => code_block lang lines
  | BIndented lines => code_block [] lines
  | BQuote paras =>
    str "<blockquote>" ++ NL ++ join (NL ++ NL) (map (fun p => str "<p>" ++ rinls o env p ++ str "</p>") paras) ++ NL ++ str "</blockquote>"
  | BList ordered loose items =>
    (if ordered then str "<ol>" else str "<ul>") ++ NL ++ flat_map (item loose) items ++ (if ordered then str "</ol>" else str "</ul>")
  | BTable aligns header rows =>
    str "<table>" ++ NL ++ str "<colgroup>" ++ NL ++
    flat_map (fun a => str "<col" ++ style_of a ++ (match a with ANone => str " />" | _ => str "/>" end) ++ NL) aligns ++
    str "</colgroup>" ++ NL ++ NL ++ str "<thead>" ++ NL ++ row (str "th") aligns header ++ str "</thead>" ++ NL ++ NL ++
    str "<tbody>" ++ NL ++ flat_map (row (str "td") aligns) rows ++ str "</tbody>" ++ NL ++ str "</table>"
  | BFigure alt url title =>
    str "<figure>" ++ NL ++ str "<img src=""" ++ hesc url ++ str """ alt=""" ++ hesc alt ++ str """" ++
    (match title with Some t => str " title=""" ++ hesc t ++ str """" | None => [] end) ++ str " />" ++ NL ++
    str "<figcaption>" ++ hesc alt ++ str "</figcaption>" ++ NL ++ str "</figure>"
  | BDefList items =>
    str "<dl>" ++ NL ++
    join (NL ++ NL) (map (fun it => str "<dt>" ++ rinls o env (fst it) ++ str "</dt>" ++ NL ++
                                    join (NL ++ NL) (map (fun d => str "<dd>" ++ rinls o env d ++ str "</dd>") (snd it))) items) ++
    NL ++ str "</dl>"
  | BHtml lines => join NL lines
  end.

(* rendering is compositional by construction: blocks are rendered one by one and separated by an empty line *)
Definition render (d : list blk) : list N := join (NL ++ NL) (map rblk d).
End RenderB.

Section SpellB.
Variable sp : spelling.

Definition indent : list N := repeat 32 (lead sp).
Definition hashes (n : nat) : list N := repeat 35 n.
Definition code_indent : list N := if tabs sp then [9] else [32; 32; 32; 32].
Definition align_text (a : align) : list N :=
  match a with ALeft => str ":--" | ACenter => str ":-:" | ARight => str "--:" | ANone => str "---" end.
Fixpoint srow (cells : list cell) : list N :=
  match cells with
  | [] => [124]
  | (c, span) :: r => str "| " ++ sinls sp c ++ [32] ++ repeat 124 (span - 1) ++ srow r
  end.

Fixpoint number_items {A} (n : nat) (items : list A) : list (nat * A) :=
  match items with [] => [] | it :: r => (n, it) :: number_items (S n) r end.

Definition sitem (ordered : bool) (ni : nat * (list inl * (bool * list (list inl)))) : list N :=
  let '(n, (txt, (subloose, sub))) := ni in
  indent ++ (if ordered then digit n ++ [46] else [bullet sp]) ++ [32] ++ sinls sp txt ++
  (match sub with
   | [] => []
   | _ => NL ++ join (if subloose then NL ++ NL else NL) (map (fun s => str "    " ++ [bullet sp; 32] ++ sinls sp s) sub)
   end).

Definition sblk (b : blk) : list N :=
  match b with
  | BPara l => sinls sp l
  | BAtx n l => indent ++ hashes n ++ [32] ++ sinls sp l ++ (match closing sp with O => [] | k => [32] ++ hashes k end)
  | BSetext n l => sinls sp l ++ NL ++ (if Nat.eqb n 1 then str "=====" else str "-----")
  | BHr => indent ++ (match rule sp with O => str "***" | 1%nat => str "---" | 2%nat => str "___" | _ => str "* * *" end)
  | BFenced lang lines => str "```" ++ lang ++ NL ++ flat_map (fun ln => ln ++ NL) lines ++ str "```"
  | BIndented lines => join NL (map (fun ln => code_indent ++ ln) lines)
  | BQuote paras => join (NL ++ [62] ++ NL) (map (fun p => str "> " ++ sinls sp p) paras)
  | BList ordered loose items =>
    join (if loose then NL ++ NL else NL) (map (sitem ordered) (number_items 1 items))
  | BTable aligns header rows =>
    srow header ++ NL ++ [124] ++ flat_map (fun a => align_text a ++ [124]) aligns ++
    flat_map (fun r => NL ++ srow r) rows
  | BFigure alt url title =>
    str "![" ++ alt ++ str "](" ++ url ++ (match title with Some t => str " """ ++ t ++ str """" | None => [] end) ++ [41]
  | BDefList items =>
    join (NL ++ NL) (map (fun it => sinls sp (fst it) ++ flat_map (fun d => NL ++ str ": " ++ sinls sp d) (snd it)) items)
  | BHtml lines => join NL lines
  end.

Definition to_crlf (t : list N) : list N := flat_map (fun b => if b =? 10 then [13; 10] else [b]) t.
Definition spell (d : list blk) : list N :=
  let t := join (NL ++ NL) (map sblk d) ++ NL in
  if crlf sp then to_crlf t else t.
End SpellB.

(* ---- whole documents: blocks, the footnotes they call (each at most once) and the link definitions *)
Record document := mkdoc { blocks : list blk; notes : list (list inl) }.

Fixpoint ifoots (i : inl) : list nat :=
  match i with
  | IFoot k => [k]
  | IEmph l | IStrong l | IQuote l | ITight l => flat_map ifoots l
  | ILink txt _ _ | IRefLink txt _ _ _ => flat_map ifoots txt
  | _ => []
  end.
Definition bfoots (b : blk) : list nat :=
  match b with
  | BPara l => flat_map ifoots l
  | BQuote ps => flat_map (flat_map ifoots) ps
  | _ => []
  end.

Definition ldef := (list N * list N * option (list N))%type.      (* label, url, title *)
Fixpoint idefs (i : inl) : list ldef :=
  match i with
  | IRefLink txt lab url title => flat_map idefs txt ++ [(lab, url, title)]
  | IRefImage _ lab url title => [(lab, url, title)]
  | IEmph l | IStrong l | IQuote l | ITight l => flat_map idefs l
  | ILink txt _ _ => flat_map idefs txt
  | _ => []
  end.
Definition bdefs (b : blk) : list ldef :=
  match b with
  | BPara l | BAtx _ l | BSetext _ l => flat_map idefs l
  | BQuote ps => flat_map (flat_map idefs) ps
  | BList _ _ items => flat_map (fun it => flat_map idefs (fst it) ++ flat_map (flat_map idefs) (snd (snd it))) items
  | BDefList items => flat_map (fun it => flat_map idefs (fst it) ++ flat_map (flat_map idefs) (snd it)) items
  | _ => []
  end.

Definition doc_env (d : document) : list nat := flat_map bfoots (blocks d).

Definition note_entry (o : opts) (env : list nat) (d : document) (k : nat) : list N :=
  let n := digit (pos_of k env) in
  str "<li id=""fn:" ++ n ++ str """>" ++ NL ++ str "<p>" ++ rinls o env (nth k (notes d) []) ++
  str " <a href=""#fnref:" ++ n ++ str """ title=""return to body"" class=""reversefootnote"">&#160;&#8617;&#xfe0e;</a></p>" ++ NL ++
  str "</li>" ++ NL ++ NL.

Definition render_doc (o : opts) (sp : spelling) (d : document) : list N :=
  let env := doc_env d in
  render o sp env (blocks d) ++
  match env with
  | [] => []
  | _ => NL ++ NL ++ str "<div class=""footnotes"">" ++ NL ++ str "<hr />" ++ NL ++ str "<ol>" ++ NL ++ NL ++
         flat_map (note_entry o env d) env ++ str "</ol>" ++ NL ++ str "</div>"
  end.

Definition spell_def (x : ldef) : list N :=
  let '(lab, url, title) := x in
  [91] ++ lab ++ str "]: " ++ url ++ (match title with Some t => str " """ ++ t ++ str """" | None => [] end).

Fixpoint number_notes (k : nat) (l : list (list inl)) : list (nat * list inl) :=
  match l with [] => [] | x :: r => (k, x) :: number_notes (S k) r end.

Definition spell_doc (sp : spelling) (d : document) : list N :=
  let body := join (NL ++ NL) (map (sblk sp) (blocks d)) in
  let defs := map spell_def (flat_map bdefs (blocks d)) in
  let fns := map (fun kn => str "[^fn" ++ [N.of_nat (48 + fst kn)] ++ str "]: " ++ sinls sp (snd kn)) (number_notes 0 (notes d)) in
  let t := join (NL ++ NL) (body :: defs ++ fns) ++ NL in
  if crlf sp then to_crlf t else t.
