(* C03: the documented rendering, as a specification.
   Abstract documents over the construct grammar (paragraphs, ATX / Setext headings with their id,
   emphasis / strong, code spans, fenced and indented code, block quotes, tight and loose bulleted /
   numbered lists with one nested level, rules, hard breaks, inline and automatic links, images,
   backslash escapes, entities, tables with alignment and column spans, super/subscript, math, smart
   punctuation);  [render] gives the HTML the syntax guide prescribes for that structure, [spell]
   writes the structure down as MultiMarkdown text in a chosen spelling (marker characters, leading
   spaces, closing #, line endings).  The check converts [spell d] with the real program and compares
   with [render d].  Definitions only. *)
From Coq Require Import List String Ascii NArith Bool Arith.
Import ListNotations.
From MMD.lib Require Import Bytes.
From MMD.model Require Import LabelModel.
Local Open Scope N_scope.

Definition str (s : string) : list N := map (fun a => N.of_nat (nat_of_ascii a)) (list_ascii_of_string s).
Fixpoint join (sep : list N) (l : list (list N)) : list N :=
  match l with
  | [] => []
  | [x] => x
  | x :: r => x ++ sep ++ join sep r
  end.
Definition NL : list N := [10].

(* ---- abstract documents *)
Inductive inl :=
| IText (w : list N)                    (* words: letters, digits, blanks, commas, full stops *)
| IEmph (l : list inl)
| IStrong (l : list inl)
| ICode (t : list N)                    (* code span; may contain reserved characters *)
| ILink (txt : list inl) (url : list N) (title : option (list N))
| IAuto (url : list N)
| IImage (alt : list N) (url : list N) (title : option (list N))
| IEsc (c : N)                          (* backslash escape of a punctuation character *)
| IAmp | ILt | IGt                      (* a lone reserved character between blanks *)
| IEntity (name : list N)               (* &name; is passed through *)
| IBreak                                (* hard line break *)
| ISup (t : list N) | ISub (t : list N)
| IMath (t : list N)
| IQuote (l : list inl)                 (* "..." *)
| IDash2 | IDash3 | IEllipsis
| IApos (a b : list N).                 (* a'b inside a word *)

Inductive align := ALeft | ACenter | ARight | ANone.
(* a table cell: content and the number of columns it spans *)
Definition cell := (list inl * nat)%type.

Inductive blk :=
| BPara (l : list inl)
| BAtx (level : nat) (l : list inl)
| BSetext (level : nat) (l : list inl)
| BHr
| BFenced (lang : list N) (lines : list (list N))
| BIndented (lines : list (list N))
| BQuote (paras : list (list inl))                         (* a quote of paragraphs *)
| BList (ordered loose : bool) (items : list (list inl * list (list inl)))   (* item text, nested tight bullet list *)
| BTable (aligns : list align) (header : list cell) (rows : list (list cell)).

Record opts := mkopts { smart : bool; compat : bool }.
(* spelling: bullet marker, emphasis character, leading spaces before block markers (0..3), closing #,
   rule spelling (0..3), tab instead of four spaces, CRLF line endings *)
Record spelling := mksp { bullet : N; emch : N; lead : nat; closing : nat; rule : nat; tabs : bool; crlf : bool }.

(* ---- HTML escaping of text and attribute values *)
Definition hesc1 (b : N) : list N :=
  if b =? 38 then str "&amp;" else if b =? 60 then str "&lt;" else if b =? 62 then str "&gt;" else if b =? 34 then str "&quot;" else [b].
Definition hesc (t : list N) : list N := flat_map hesc1 t.

Section Render.
Variable o : opts.

Fixpoint rinl (i : inl) : list N :=
  match i with
  | IText w => w
  | IEmph l => str "<em>" ++ join [32] (map rinl l) ++ str "</em>"
  | IStrong l => str "<strong>" ++ join [32] (map rinl l) ++ str "</strong>"
  | ICode t => str "<code>" ++ hesc t ++ str "</code>"
  | ILink txt url title =>
    str "<a href=""" ++ hesc url ++ str """" ++
    (match title with Some t => str " title=""" ++ hesc t ++ str """" | None => [] end) ++ str ">" ++
    join [32] (map rinl txt) ++ str "</a>"
  | IAuto url => str "<a href=""" ++ hesc url ++ str """>" ++ hesc url ++ str "</a>"
  | IImage alt url title =>
    str "<img src=""" ++ hesc url ++ str """ alt=""" ++ hesc alt ++ str """" ++
    (match title with Some t => str " title=""" ++ hesc t ++ str """" | None => [] end) ++ str " />"
  | IEsc c => hesc1 c
  | IAmp => str "&amp;" | ILt => str "&lt;" | IGt => str "&gt;"
  | IEntity n => [38] ++ n ++ [59]
  | IBreak => str "<br />" ++ NL
  | ISup t => str "<sup>" ++ t ++ str "</sup>"
  | ISub t => str "<sub>" ++ t ++ str "</sub>"
  | IMath t => str "<span class=""math"">\(" ++ hesc t ++ str "\)</span>"
  | IQuote l => if smart o then str "&#8220;" ++ join [32] (map rinl l) ++ str "&#8221;"
                else str "&quot;" ++ join [32] (map rinl l) ++ str "&quot;"
  | IDash2 => if smart o then str "&#8211;" else str "--"
  | IDash3 => if smart o then str "&#8212;" else str "---"
  | IEllipsis => if smart o then str "&#8230;" else str "..."
  | IApos a b => a ++ (if smart o then str "&#8217;" else str "'") ++ b
  end.

(* inline elements of one run are separated by single blanks; a hard break ends its line *)
Fixpoint rinls (l : list inl) : list N :=
  match l with
  | [] => []
  | [i] => rinl i
  | IBreak :: r => rinl IBreak ++ rinls r
  | i :: ((IBreak :: _) as r) => rinl i ++ rinls r
  | i :: r => rinl i ++ [32] ++ rinls r
  end.
End Render.

(* ---- the source text of inline elements *)
Section Spell.
Variable sp : spelling.

Fixpoint sinl (i : inl) : list N :=
  match i with
  | IText w => w
  | IEmph l => [emch sp] ++ join [32] (map sinl l) ++ [emch sp]
  | IStrong l => [emch sp; emch sp] ++ join [32] (map sinl l) ++ [emch sp; emch sp]
  | ICode t => [96] ++ t ++ [96]
  | ILink txt url title =>
    [91] ++ join [32] (map sinl txt) ++ str "](" ++ url ++
    (match title with Some t => str " """ ++ t ++ str """" | None => [] end) ++ [41]
  | IAuto url => [60] ++ url ++ [62]
  | IImage alt url title =>
    str "![" ++ alt ++ str "](" ++ url ++ (match title with Some t => str " """ ++ t ++ str """" | None => [] end) ++ [41]
  | IEsc c => [92; c]
  | IAmp => [38] | ILt => [60] | IGt => [62]
  | IEntity n => [38] ++ n ++ [59]
  | IBreak => [32; 32; 10]
  | ISup t => [94] ++ t ++ [94]
  | ISub t => [126] ++ t ++ [126]
  | IMath t => str "\\(" ++ t ++ str "\\)"
  | IQuote l => [34] ++ join [32] (map sinl l) ++ [34]
  | IDash2 => str "--" | IDash3 => str "---" | IEllipsis => str "..."
  | IApos a b => a ++ [39] ++ b
  end.

Fixpoint sinls (l : list inl) : list N :=
  match l with
  | [] => []
  | [i] => sinl i
  | IBreak :: r => sinl IBreak ++ sinls r
  | i :: ((IBreak :: _) as r) => sinl i ++ sinls r
  | i :: r => sinl i ++ [32] ++ sinls r
  end.
End Spell.

(* ---- blocks *)
Definition digit (n : nat) : list N := [N.of_nat (48 + n)].
Definition style_of (a : align) : list N :=
  match a with
  | ALeft => str " style=""text-align:left;"""
  | ACenter => str " style=""text-align:center;"""
  | ARight => str " style=""text-align:right;"""
  | ANone => []
  end.

Section RenderB.
Variable o : opts.
Variable sp : spelling.      (* the id of a heading is computed from its source text *)

Definition heading (level : nat) (l : list inl) : list N :=
  str "<h" ++ digit level ++
  (if compat o then [] else str " id=""" ++ label_from_string (sinls sp l) ++ str """") ++ str ">" ++
  rinls o l ++ str "</h" ++ digit level ++ str ">".

Definition code_block (lang : list N) (lines : list (list N)) : list N :=
  str "<pre><code" ++ (match lang with [] => [] | _ => str " class=""" ++ lang ++ str """" end) ++ str ">" ++
  flat_map (fun ln => hesc ln ++ NL) lines ++ str "</code></pre>".

Definition tight_items (items : list (list inl)) : list N :=
  flat_map (fun it => str "<li>" ++ rinls o it ++ str "</li>" ++ NL) items.

Definition item (loose : bool) (it : list inl * list (list inl)) : list N :=
  let '(txt, sub) := it in
  str "<li>" ++ (if loose then str "<p>" ++ rinls o txt ++ str "</p>" else rinls o txt) ++
  (match sub with
   | [] => []
   | _ => NL ++ NL ++ str "<ul>" ++ NL ++ tight_items sub ++ str "</ul>"
   end) ++ str "</li>" ++ NL.

(* cells of a row: every cell carries the alignment of the column it starts in *)
Fixpoint row_cells (tag : list N) (aligns : list align) (cells : list cell) : list N :=
  match cells with
  | [] => []
  | (c, span) :: r =>
    [9; 60] ++ tag ++ style_of (hd ANone aligns) ++
    (if Nat.ltb 1 span then str " colspan=""" ++ digit span ++ str """" else []) ++
    str "> " ++ rinls o c ++ str " </" ++ tag ++ str ">" ++ NL ++
    row_cells tag (skipn span aligns) r
  end.
Definition row (tag : list N) (aligns : list align) (cells : list cell) : list N :=
  str "<tr>" ++ NL ++ row_cells tag aligns cells ++ str "</tr>" ++ NL.

Definition rblk (b : blk) : list N :=
  match b with
  | BPara l => str "<p>" ++ rinls o l ++ str "</p>"
  | BAtx n l => heading n l
  | BSetext n l => heading n l
  | BHr => str "<hr />"
  | BFenced lang lines => code_block lang lines
  | BIndented lines => code_block [] lines
  | BQuote paras =>
    str "<blockquote>" ++ NL ++ join (NL ++ NL) (map (fun p => str "<p>" ++ rinls o p ++ str "</p>") paras) ++ NL ++ str "</blockquote>"
  | BList ordered loose items =>
    (if ordered then str "<ol>" else str "<ul>") ++ NL ++ flat_map (item loose) items ++ (if ordered then str "</ol>" else str "</ul>")
  | BTable aligns header rows =>
    str "<table>" ++ NL ++ str "<colgroup>" ++ NL ++
    flat_map (fun a => str "<col" ++ style_of a ++ (match a with ANone => str " />" | _ => str "/>" end) ++ NL) aligns ++
    str "</colgroup>" ++ NL ++ NL ++ str "<thead>" ++ NL ++ row (str "th") aligns header ++ str "</thead>" ++ NL ++ NL ++
    str "<tbody>" ++ NL ++ flat_map (row (str "td") aligns) rows ++ str "</tbody>" ++ NL ++ str "</table>"
  end.

(* rendering is compositional by construction: blocks are rendered one by one and separated by an empty line *)
Definition render (d : list blk) : list N := join (NL ++ NL) (map rblk d).
End RenderB.

Section SpellB.
Variable sp : spelling.

Definition indent : list N := repeat 32 (lead sp).
Definition hashes (n : nat) : list N := repeat 35 n.
Definition code_indent : list N := if tabs sp then [9] else [32; 32; 32; 32].
Definition align_text (a : align) : list N :=
  match a with ALeft => str ":--" | ACenter => str ":-:" | ARight => str "--:" | ANone => str "---" end.
Fixpoint srow (cells : list cell) : list N :=
  match cells with
  | [] => [124]
  | (c, span) :: r => str "| " ++ sinls sp c ++ [32] ++ repeat 124 (span - 1) ++ srow r
  end.

Fixpoint number_items (n : nat) (items : list (list inl * list (list inl))) : list (nat * (list inl * list (list inl))) :=
  match items with [] => [] | it :: r => (n, it) :: number_items (S n) r end.

Definition sitem (ordered : bool) (ni : nat * (list inl * list (list inl))) : list N :=
  let '(n, (txt, sub)) := ni in
  indent ++ (if ordered then digit n ++ [46] else [bullet sp]) ++ [32] ++ sinls sp txt ++
  flat_map (fun s => NL ++ str "    " ++ [bullet sp; 32] ++ sinls sp s) sub.

Definition sblk (b : blk) : list N :=
  match b with
  | BPara l => sinls sp l
  | BAtx n l => indent ++ hashes n ++ [32] ++ sinls sp l ++ (match closing sp with O => [] | k => [32] ++ hashes k end)
  | BSetext n l => sinls sp l ++ NL ++ (if Nat.eqb n 1 then str "=====" else str "-----")
  | BHr => indent ++ (match rule sp with O => str "***" | 1%nat => str "---" | 2%nat => str "___" | _ => str "* * *" end)
  | BFenced lang lines => str "```" ++ lang ++ NL ++ flat_map (fun ln => ln ++ NL) lines ++ str "```"
  | BIndented lines => join NL (map (fun ln => code_indent ++ ln) lines)
  | BQuote paras => join (NL ++ [62] ++ NL) (map (fun p => str "> " ++ sinls sp p) paras)
  | BList ordered loose items =>
    join (if loose then NL ++ NL else NL) (map (sitem ordered) (number_items 1 items))
  | BTable aligns header rows =>
    srow header ++ NL ++ [124] ++ flat_map (fun a => align_text a ++ [124]) aligns ++
    flat_map (fun r => NL ++ srow r) rows
  end.

Definition to_crlf (t : list N) : list N := flat_map (fun b => if b =? 10 then [13; 10] else [b]) t.
Definition spell (d : list blk) : list N :=
  let t := join (NL ++ NL) (map sblk d) ++ NL in
  if crlf sp then to_crlf t else t.
End SpellB.
