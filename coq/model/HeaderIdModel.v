(* The text a heading's id, its automatic link label and a reference to it are computed from
   (writer.c: label_from_header, process_header_to_links, manual_label_from_header; the id and the
   link label are both label_from_string of the header token's span, cut before a Setext underline).
   Definitions only. *)
From MMD.lib Require Import Bytes Transducer.
From MMD.model Require Import LabelModel.
Local Open Scope N_scope.

Inductive hstyle :=
| Atx (level closing : nat)        (* "## title ##": closing = number of trailing # (0 = none) *)
| Setext1 (n : nat)                (* title, newline, n '=' *)
| Setext2 (n : nat).               (* title, newline, n '-' *)

(* the bytes covered by the header token *)
Definition header_span (st : hstyle) (title : list N) : list N :=
  match st with
  | Atx l c => repeat 35 l ++ [32] ++ title ++ (match c with O => [] | _ => 32 :: repeat 35 c end) ++ [10]
  | Setext1 n => title ++ [10] ++ repeat 61 n ++ [10]
  | Setext2 n => title ++ [10] ++ repeat 45 n ++ [10]
  end.

(* the part of the span the label is computed from: everything before the underline marker *)
Definition label_span (st : hstyle) (title : list N) : list N :=
  match st with
  | Atx _ _ => header_span st title
  | Setext1 _ | Setext2 _ => title ++ [10]
  end.

Definition header_id (st : hstyle) (title : list N) : list N := label_from_string (label_span st title).
Definition autolink_label (st : hstyle) (title : list N) : list N := label_from_string (label_span st title).
(* what "[title][]" is looked up under *)
Definition reference_label (title : list N) : list N := label_from_string title.
(* "# title [lab]": the bracket pair is the label source *)
Definition manual_id (lab : list N) : list N := label_from_string ([91] ++ lab ++ [93]).

(* the plain description for ASCII text: keep 0-9 A-Z a-z . _ - : in lower case *)
Definition label_spec (s : list N) : list N := map lower (filter label_allowed s).
