(* Executable model of /repo/src/d_string.c, transcribed statement by statement.
   The raw buffer (all [cap] bytes) is modelled, every libc primitive is bounds
   checked and returns [Err OOB] when a range leaves [0,cap).  size_t arithmetic is
   explicit ([wadd]/[wsub] modulo 2^64).  Definitions only. *)
From MMD.lib Require Import Bytes.
Local Open Scope N_scope.

Record ds := mkds { raw : list byte; len : N; cap : N }.

Section WithFill.
Variable fill : byte.   (* content of freshly (re)allocated memory: indeterminate in C *)

Definition START : N := 1024.
Definition MAXINC : N := 104857600.   (* 1024 * 1024 * 100 *)

(* ---- libc primitives on the raw buffer; offsets are size_t values *)
Definition memmove (r : list byte) (dst src n : N) : res (list byte) :=
  if (src + n <=? Nlen r) && (dst + n <=? Nlen r)
  then Ok (blit r (N.to_nat dst) (sub_list r (N.to_nat src) (N.to_nat n)))
  else Err OOB.

Definition memcpy_in (r : list byte) (dst : N) (p : list byte) : res (list byte) :=
  if dst + Nlen p <=? Nlen r then Ok (blit r (N.to_nat dst) p) else Err OOB.

Definition poke (r : list byte) (i : N) (b : byte) : res (list byte) :=
  if i <? Nlen r then Ok (blit r (N.to_nat i) [b]) else Err OOB.

(* the C string starting at offset [off]: bytes up to the first NUL; OOB if none *)
Definition cstr_at (r : list byte) (off : N) : res (list byte) :=
  if off <? Nlen r then
    let t := skipn (N.to_nat off) r in
    let s := take_nonzero t in
    if (length s <? length t)%nat then Ok s else Err OOB
  else Err OOB.

(* ---- ensureStringBufferCanHold *)
Fixpoint grow_double (fuel : nat) (c needed : N) : res N :=
  if (needed <=? c) || (MAXINC <? c) then Ok c else
  match fuel with
  | O => Err Hang
  | S f => grow_double f (wmul c 2) needed
  end.

Definition grow (c needed : N) : res N :=
  do c1 <- grow_double 70 c needed;
  if needed <=? c1 then Ok c1
  else Ok (c1 + MAXINC * ((needed - c1 + MAXINC - 1) / MAXINC)).

Definition ensure (s : ds) (newsize : N) : res ds :=
  let needed := wadd newsize 1 in
  if cap s <? needed then
    do c <- grow (cap s) needed;
    Ok (mkds (raw s ++ repeat fill (N.to_nat (c - cap s))) (len s) c)
  else Ok s.

(* ---- d_string_new *)
Fixpoint start_size (fuel : nat) (c needed : N) : res N :=
  if needed <=? c then Ok c else
  match fuel with O => Err Hang | S f => start_size f (wmul c 2) needed end.

Definition ds_new (p : list byte) : res ds :=
  if negb (nonul p) then Err BadArg else
  do c <- start_size 70 START (wadd (Nlen p) 1);
  let r0 := repeat fill (N.to_nat c) in
  do r1 <- memcpy_in r0 0 p;             (* strncpy(str, starting, strlen) *)
  do r2 <- poke r1 (Nlen p) 0;
  Ok (mkds r2 (Nlen p) c).

(* ---- append family *)
Definition ds_append (s : ds) (p : list byte) : res ds :=
  if negb (nonul p) then Err BadArg else
  if Nlen p =? 0 then Ok s else
  let newlen := wadd (len s) (Nlen p) in
  do s1 <- ensure s newlen;
  (* strncat(str + len, p, n): finds the NUL at/after str+len first *)
  do tail <- cstr_at (raw s1) (len s1);
  let at_ := len s1 + Nlen tail in
  do r1 <- memcpy_in (raw s1) at_ p;
  do r2 <- poke r1 (at_ + Nlen p) 0;
  Ok (mkds r2 newlen (cap s1)).

Definition ds_append_c (s : ds) (c : byte) : res ds :=
  if c =? 0 then Ok s else
  let newsize := wadd (len s) 1 in
  do s1 <- ensure s newsize;
  do r1 <- poke (raw s1) (len s1) c;
  do r2 <- poke r1 newsize 0;
  Ok (mkds r2 newsize (cap s1)).

(* [bytes] may be SIZE_MAX (= -1: same as append); otherwise at most |p| bytes may be read *)
Definition ds_append_c_array (s : ds) (p : list byte) (bytes : N) : res ds :=
  if bytes =? SIZE_MAX then ds_append s p else
  if negb (nonul p) || (Nlen p <? bytes) then Err BadArg else
  let newsize := wadd (len s) bytes in
  do s1 <- ensure s newsize;
  do r1 <- memcpy_in (raw s1) (len s1) (firstn (N.to_nat bytes) p);
  do r2 <- poke r1 newsize 0;
  Ok (mkds r2 newsize (cap s1)).

Definition ds_prepend (s : ds) (p : list byte) : res ds :=
  if negb (nonul p) then Err BadArg else
  if Nlen p =? 0 then Ok s else
  let newlen := wadd (len s) (Nlen p) in
  do s1 <- ensure s newlen;
  do r1 <- memmove (raw s1) (Nlen p) 0 (len s1);
  do r2 <- memcpy_in r1 0 p;
  do r3 <- poke r2 newlen 0;
  Ok (mkds r3 newlen (cap s1)).

Definition ds_insert (s : ds) (pos : N) (p : list byte) : res ds :=
  if negb (nonul p) then Err BadArg else
  if Nlen p =? 0 then Ok s else
  let pos := if len s <? pos then len s else pos in
  let newlen := wadd (len s) (Nlen p) in
  do s1 <- ensure s newlen;
  do r1 <- memmove (raw s1) (wadd pos (Nlen p)) pos (wsub (len s1) pos);
  do r2 <- memcpy_in r1 pos p;
  do r3 <- poke r2 newlen 0;
  Ok (mkds r3 newlen (cap s1)).

Definition ds_insert_c (s : ds) (pos : N) (c : byte) : res ds :=
  if c =? 0 then Ok s else
  let pos := if len s <? pos then len s else pos in
  let newsize := wadd (len s) 1 in
  do s1 <- ensure s newsize;
  do r1 <- memmove (raw s1) (wadd pos 1) pos (wsub (len s1) pos);
  do r2 <- poke r1 pos c;
  do r3 <- poke r2 newsize 0;
  Ok (mkds r3 newsize (cap s1)).

Definition ds_insert_c_array (s : ds) (pos : N) (p : list byte) (bytes : N) : res ds :=
  if bytes =? SIZE_MAX then ds_insert s pos p else
  if negb (nonul p) || (Nlen p <? bytes) then Err BadArg else
  let pos := if len s <? pos then len s else pos in
  let newsize := wadd (len s) bytes in
  do s1 <- ensure s newsize;
  do r1 <- memmove (raw s1) (wadd pos bytes) pos (wsub (len s1) pos);
  do r2 <- memcpy_in r1 pos (firstn (N.to_nat bytes) p);   (* strncpy on NUL-free source *)
  do r3 <- poke r2 newsize 0;
  Ok (mkds r3 newsize (cap s1)).

(* ---- erase *)
Definition ds_erase (s : ds) (pos l : N) : res ds :=
  if (len s <? pos) || (l =? 0) then Ok s else
  let l := if (len s - pos <=? l) then SIZE_MAX else l in      (* len >= length - pos *)
  if l =? SIZE_MAX then
    do r1 <- poke (raw s) pos 0;
    Ok (mkds r1 pos (cap s))
  else
    do r1 <- memmove (raw s) pos (wadd pos l) (wsub (wsub (len s) pos) l);
    let nl := wsub (len s) l in
    do r2 <- poke r1 nl 0;
    Ok (mkds r2 nl (cap s)).

(* ---- copy_substring: None = the C function returned NULL *)
Definition ds_copy_substring (s : ds) (start l : N) : res (option (list byte)) :=
  let l := if l =? SIZE_MAX then (if start <=? len s then len s - start else 0) else l in
  if (len s <? start) || (len s - start <? l) then Ok None else
  (* strncpy(result, &str[start], len) *)
  if start + l <=? Nlen (raw s) then
    Ok (Some (take_nonzero (sub_list (raw s) (N.to_nat start) (N.to_nat l))))
  else Err OOB.

(* ---- replace_text_in_range; returns the new string and delta (a C long) *)
Fixpoint replace_loop (fuel : nat) (s : ds) (m : option N) (stop : N) (o r : list byte)
         (delta : Z) : res (ds * Z) :=
  match m with
  | None => Ok (s, delta)
  | Some mpos =>
    if negb (mpos <? stop) then Ok (s, delta) else
    match fuel with
    | O => Err Hang
    | S f =>
      let pos := mpos in
      do s1 <- ds_erase s pos (Nlen o);
      do s2 <- ds_insert s1 pos r;
      let change := (Z.of_N (Nlen r) - Z.of_N (Nlen o))%Z in
      let delta := (delta + change)%Z in
      if stop <? pos + Nlen o then Ok (s2, delta) else
      let stop := wadd stop (wofZ change) in
      let from := wadd pos (Nlen r) in
      do t <- cstr_at (raw s2) from;
      let m' := match find_sub o t with Some i => Some (from + N.of_nat i) | None => None end in
      replace_loop f s2 m' stop o r delta
    end
  end.

Definition ds_replace (s : ds) (pos l : N) (o r : list byte) : res (ds * Z) :=
  if negb (nonul o) || negb (nonul r) then Err BadArg else
  if len s <? pos then Ok (s, 0%Z) else
  if Nlen o =? 0 then Ok (s, 0%Z) else
  let stop := if (l =? SIZE_MAX) || (len s - pos <? l) then len s else wadd pos l in
  do t <- cstr_at (raw s) pos;
  let m := match find_sub o t with Some i => Some (pos + N.of_nat i) | None => None end in
  replace_loop (S (N.to_nat (len s))) s m stop o r 0%Z.

(* ---- operations as data, for histories *)
Inductive op :=
| OAppend (p : list byte) | OAppendC (c : byte) | OAppendArr (p : list byte) (bytes : N)
| OPrepend (p : list byte) | OInsert (pos : N) (p : list byte) | OInsertC (pos : N) (c : byte)
| OInsertArr (pos : N) (p : list byte) (bytes : N) | OErase (pos l : N)
| OSubstr (start l : N) | OReplace (pos l : N) (o r : list byte).

(* observable output of an operation besides the new state *)
Inductive out := ONone | OStr (r : option (list byte)) | ODelta (z : Z).

Definition step (s : ds) (o : op) : res (ds * out) :=
  match o with
  | OAppend p => do s' <- ds_append s p; Ok (s', ONone)
  | OAppendC c => do s' <- ds_append_c s c; Ok (s', ONone)
  | OAppendArr p b => do s' <- ds_append_c_array s p b; Ok (s', ONone)
  | OPrepend p => do s' <- ds_prepend s p; Ok (s', ONone)
  | OInsert pos p => do s' <- ds_insert s pos p; Ok (s', ONone)
  | OInsertC pos c => do s' <- ds_insert_c s pos c; Ok (s', ONone)
  | OInsertArr pos p b => do s' <- ds_insert_c_array s pos p b; Ok (s', ONone)
  | OErase pos l => do s' <- ds_erase s pos l; Ok (s', ONone)
  | OSubstr st l => do r <- ds_copy_substring s st l; Ok (s, OStr r)
  | OReplace pos l o r => do x <- ds_replace s pos l o r; Ok (fst x, ODelta (snd x))
  end.

End WithFill.

Definition content (s : ds) : list byte := firstn (N.to_nat (len s)) (raw s).
