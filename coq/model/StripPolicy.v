(* C02 (b): policy lists for the syntactic obligations about strip_line_tokens_from_block (mmd.c).  Hand-written:
   changing these lists is a reviewed decision, the regenerated lists (gen/WriterCases.v) are compared against them. *)
From Coq Require Import List String.
Import ListNotations.
Local Open Scope string_scope.

(* line kinds whose tokens must be moved into the parent block before export - no writer has a case for them,
   a LINE_* token of one of these kinds left in the tree ends in the writers' "Unknown token type" escape *)
Definition must_be_dissolved : list string :=
  ["LINE_ATX_1"; "LINE_ATX_2"; "LINE_ATX_3"; "LINE_ATX_4"; "LINE_ATX_5"; "LINE_ATX_6"; "LINE_BLOCKQUOTE"; "LINE_CONTINUATION";
   "LINE_DEFINITION"; "LINE_DEF_ABBREVIATION"; "LINE_DEF_CITATION"; "LINE_DEF_FOOTNOTE"; "LINE_DEF_GLOSSARY"; "LINE_DEF_LINK";
   "LINE_EMPTY"; "LINE_INDENTED_SPACE"; "LINE_INDENTED_TAB"; "LINE_LIST_BULLETED"; "LINE_LIST_ENUMERATED"; "LINE_META";
   "LINE_PLAIN"; "LINE_SETEXT_1"; "LINE_SETEXT_2"; "LINE_START_COMMENT"; "LINE_STOP_COMMENT"; "LINE_TABLE"; "LINE_TABLE_SEPARATOR"].

(* line kinds that stay in the tree by design: their block is rendered without visiting them (BLOCK_HR, BLOCK_TOC),
   verbatim from the source (BLOCK_HTML), or they are the fence lines the code-block cases look for *)
Definition kept_by_design : list string :=
  ["LINE_HR"; "LINE_HTML"; "LINE_TOC"; "LINE_FENCE_BACKTICK_3"; "LINE_FENCE_BACKTICK_4"; "LINE_FENCE_BACKTICK_5";
   "LINE_FENCE_BACKTICK_START_3"; "LINE_FENCE_BACKTICK_START_4"; "LINE_FENCE_BACKTICK_START_5"].

Definition subset_s (a b : list string) : bool := forallb (fun x => existsb (String.eqb x) b) a.
