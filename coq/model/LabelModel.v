(* Executable models of label_from_string and clean_string (writer.c), written as byte transducers
   (finite state, one byte of lookahead kept as a pending byte) so that Transducer.v applies.
   tolower() is modelled for the C locale: only A-Z change.  Definitions only. *)
From MMD.lib Require Import Bytes Transducer.
Local Open Scope N_scope.

Definition is_cont (b : N) : bool := (128 <=? b) && (b <=? 191).       (* (b & 0xC0) == 0x80 *)
Definition lower (b : N) : N := if (65 <=? b) && (b <=? 90) then b + 32 else b.
Definition label_allowed (b : N) : bool :=
  ((48 <=? b) && (b <=? 57)) || ((65 <=? b) && (b <=? 90)) || ((97 <=? b) && (b <=? 122)) ||
  (b =? 46) || (b =? 95) || (b =? 45) || (b =? 58).

(* ---- label_from_string: the byte at position j is decided when the byte at j+1 is seen *)
Record lstate := mkl { pend : option N; first : bool }.
Definition linit : lstate := mkl None true.
Definition ldecide (p : N) (next_is_cont firstpos : bool) : list N :=
  if is_cont p && negb firstpos then [p]
  else if next_is_cont then [p]
  else if label_allowed p then [lower p] else [].
Definition lstep (st : lstate) (b : N) : lstate * list N :=
  match pend st with
  | None => (mkl (Some b) true, [])
  | Some p => (mkl (Some b) false, ldecide p (is_cont b) (first st))
  end.
Definition lflush (st : lstate) : list N :=
  match pend st with None => [] | Some p => ldecide p false (first st) end.
Definition label_from_string (s : list N) : list N := transduce lstate linit lstep lflush s.

(* ---- clean_string *)
Inductive cmode := CNormal | CBackslash | CAmp (k : N).     (* k of "amp;" matched after an ampersand *)
Record cstate := mkc { bw : bool; mode : cmode }.
Definition cinit : cstate := mkc true CNormal.

Section Clean.
Variables (lowercase url_clean : bool).

Definition cdefault (b : N) : list N := [if lowercase then lower b else b].
Definition is_space (b : N) : bool := (b =? 9) || (b =? 32) || (b =? 10) || (b =? 13).

(* process one byte in normal mode *)
Definition cnormal (bwf : bool) (b : N) : cstate * list N :=
  if b =? 92 then (if url_clean then (mkc bwf CNormal, []) else (mkc bwf CBackslash, []))
  else if is_space b then (if bwf then (mkc true CNormal, []) else (mkc true CNormal, [32]))
  else if b =? 38 then (if url_clean then (mkc false (CAmp 0), [38]) else (mkc false CNormal, [38]))
  else (mkc false CNormal, cdefault b).

Definition amp_char (k : N) : N := match k with 0 => 97 | 1 => 109 | 2 => 112 | _ => 59 end.   (* a m p ; *)
Definition amp_prefix (k : N) : list N := firstn (N.to_nat k) [97; 109; 112].

Definition cstep (st : cstate) (b : N) : cstate * list N :=
  match mode st with
  | CNormal => cnormal (bw st) b
  | CBackslash =>
    (* the byte after the backslash decides what the backslash becomes, then is processed itself *)
    let '(bw1, o1) := if (b =? 10) || (b =? 13) then (true, [10]) else (false, [92]) in
    let '(st2, o2) := cnormal bw1 b in (st2, o1 ++ o2)
  | CAmp k =>
    if b =? amp_char k then
      (if k =? 3 then (mkc (bw st) CNormal, []) else (mkc (bw st) (CAmp (k + 1)), []))
    else
      (* not "&amp;": the letters held back are ordinary characters, then the current byte *)
      let held := flat_map cdefault (amp_prefix k) in
      let bw1 := if k =? 0 then bw st else false in
      let '(st2, o2) := cnormal bw1 b in (st2, held ++ o2)
  end.

Definition cflush (st : cstate) : list N :=
  match mode st with
  | CNormal => []
  | CBackslash => [92]
  | CAmp k => flat_map cdefault (amp_prefix k)
  end.

Definition clean_core (s : list N) : list N := transduce cstate cinit cstep cflush s.
End Clean.

(* trailing trim of white space / line endings (set given by the regenerated char table) *)
Fixpoint trim_trailing (ws : list N) (l : list N) : list N :=
  match l with
  | [] => []
  | x :: r => match trim_trailing ws r with
              | [] => if existsb (N.eqb x) ws then [] else [x]
              | r' => x :: r'
              end
  end.

Definition clean_string (ws : list N) (lowercase url_clean : bool) (s : list N) : list N :=
  trim_trailing ws (clean_core lowercase url_clean s).
