(* Executable model of the shared token pool: token.c (token_pool, token_pool_count,
   token_pool_init/drain/free) over object_pool.c (slabs of 1024 objects, bump pointer [next],
   one-past-the-end sentinel [last], stack of allocated slabs).  Slabs are abstract blocks with
   fresh identities (malloc oracle: every call returns a new block); an address is
   (slab, object index).  Definitions only. *)
From MMD.lib Require Import Bytes.
Local Open Scope N_scope.

Definition NOBJ : N := 1024.
Definition addr := (nat * N)%type.

Record pooldata := mkpd {
  slabs : list nat;             (* p->allocated, top of stack first *)
  nxt : option addr;            (* p->next: NULL or (slab, index), index <= 1024 *)
  lst : option nat              (* p->last: NULL or one past the end of that slab *)
}.

Record pstate := mkps {
  pool : option pooldata;       (* token_pool *)
  count : Z;                    (* token_pool_count (a C short: wrap at 2^15 nested inits not modelled) *)
  fresh : nat;                  (* malloc oracle: next unused block identity *)
  live : list nat;              (* blocks malloc'ed and not yet freed *)
  freed : list nat;             (* blocks passed to free(), most recent first *)
  handed : list addr            (* ghost: addresses returned since the last outermost drain *)
}.

Definition pinit : pstate := mkps None 0 0 [] [] [].

Inductive pop := PInit | PAlloc | PDrain | PFree.

(* pool_add_slab (malloc succeeds) *)
Definition add_slab (st : pstate) (pd : pooldata) : pstate * pooldata :=
  let id := fresh st in
  (mkps (pool st) (count st) (S id) (id :: live st) (freed st) (handed st),
   mkpd (id :: slabs pd) (Some (id, 0)) (Some id)).

Definition memb (x : nat) (l : list nat) : bool := existsb (Nat.eqb x) l.

(* pool_drain: free every slab on the stack, next = last = NULL *)
Definition drain_pool (st : pstate) (pd : pooldata) : pstate * pooldata :=
  (mkps (pool st) (count st) (fresh st)
        (filter (fun x => negb (memb x (slabs pd))) (live st))
        (slabs pd ++ freed st) (handed st),
   mkpd [] None None).

Definition ptr_eq (a : option addr) (l : option nat) : bool :=
  match a, l with
  | None, None => true
  | Some (s, i), Some s' => Nat.eqb s s' && (i =? NOBJ)
  | _, _ => false
  end.

Definition ptr_lt (a : option addr) (l : option nat) : bool :=
  match a, l with
  | Some (s, i), Some s' => Nat.eqb s s' && (i <? NOBJ)
  | _, _ => false
  end.

Definition set_pool (st : pstate) (p : option pooldata) : pstate :=
  mkps p (count st) (fresh st) (live st) (freed st) (handed st).

(* result of a step: new state and, for PAlloc, the address returned (None = NULL) *)
Definition pstep (st : pstate) (o : pop) : res (pstate * option addr) :=
  match o with
  | PInit =>
    let st1 := match pool st with
               | None => let '(st', pd) := add_slab st (mkpd [] None None) in set_pool st' (Some pd)
               | Some _ => st
               end in
    Ok (mkps (pool st1) (count st + 1) (fresh st1) (live st1) (freed st1) (handed st1), None)
  | PDrain =>
    let c := (count st - 1)%Z in
    if (c =? 0)%Z then
      match pool st with
      | None => Ok (mkps None c (fresh st) (live st) (freed st) [], None)      (* pool_drain(NULL) *)
      | Some pd => let '(st', pd') := drain_pool st pd in
                   Ok (mkps (Some pd') c (fresh st') (live st') (freed st') [], None)
      end
    else Ok (mkps (pool st) c (fresh st) (live st) (freed st) (handed st), None)
  | PFree =>
    if (count st =? 0)%Z then
      match pool st with
      | None => Ok (st, None)                                                   (* pool_free(NULL) *)
      | Some pd => let '(st', _) := drain_pool st pd in Ok (set_pool st' None, None)
      end
    else Ok (st, None)                                                          (* error message only *)
  | PAlloc =>
    match pool st with
    | None => Err OOB                                                           (* NULL dereference *)
    | Some pd =>
      let '(st1, pd1) := if ptr_eq (nxt pd) (lst pd) then add_slab st pd else (st, pd) in
      if ptr_lt (nxt pd1) (lst pd1) then
        match nxt pd1 with
        | Some (s, i) =>
          let pd2 := mkpd (slabs pd1) (Some (s, i + 1)) (lst pd1) in
          Ok (mkps (Some pd2) (count st1) (fresh st1) (live st1) (freed st1) ((s, i) :: handed st1),
              Some (s, i))
        | None => Ok (set_pool st1 (Some pd1), None)
        end
      else Ok (set_pool st1 (Some pd1), None)
    end
  end.

Fixpoint prun (st : pstate) (ops : list pop) : res (pstate * list (option addr)) :=
  match ops with
  | [] => Ok (st, [])
  | o :: t => do r <- pstep st o; do r2 <- prun (fst r) t; Ok (fst r2, snd r :: snd r2)
  end.

(* the calling discipline of the property: init/drain pairs nest, allocation only inside a pair,
   free only outside all pairs *)
Fixpoint well_bracketed (depth : nat) (ops : list pop) : bool :=
  match ops with
  | [] => true
  | PInit :: t => well_bracketed (S depth) t
  | PAlloc :: t => (0 <? depth)%nat && well_bracketed depth t
  | PDrain :: t => match depth with O => false | S d => well_bracketed d t end
  | PFree :: t => (depth =? 0)%nat && well_bracketed depth t
  end.
