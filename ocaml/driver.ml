(* Driver for the extracted Gallina models.  usage: driver <model> < cases > results
   One case per input line, one canonical result line per case (same format as harness/*.c). *)
open Mmdmodel

(* ---------- conversions between OCaml and the extracted Coq numbers *)
let rec pos_of_int i = if i = 1 then XH else if i land 1 = 0 then XO (pos_of_int (i lsr 1)) else XI (pos_of_int (i lsr 1))
let n_of_int i = if i = 0 then N0 else Npos (pos_of_int i)
let rec int_of_pos = function XH -> 1 | XO p -> 2 * int_of_pos p | XI p -> 2 * int_of_pos p + 1
let int_of_n = function N0 -> 0 | Npos p -> int_of_pos p
let int_of_z = function Z0 -> 0 | Zpos p -> int_of_pos p | Zneg p -> - (int_of_pos p)
let z_of_int i = if i = 0 then Z0 else if i > 0 then Zpos (pos_of_int i) else Zneg (pos_of_int (-i))
let rec nat_of_int i = if i = 0 then O else S (nat_of_int (i - 1))
let rec int_of_nat = function O -> 0 | S n -> 1 + int_of_nat n
(* decimal string (up to 2^64-1 and beyond) -> N, using the extracted arithmetic *)
let n_of_dec s =
  let ten = n_of_int 10 in
  let acc = ref N0 in
  String.iter (fun c -> acc := N.add (N.mul !acc ten) (n_of_int (Char.code c - 48))) s;
  !acc
(* N -> decimal string; values beyond max_int printed through repeated division *)
let dec_of_n n =
  let ten = n_of_int 10 in
  let rec go n acc = match n with N0 -> acc | _ ->
    let q = N.div n ten and r = N.modulo n ten in go q (string_of_int (int_of_n r) ^ acc) in
  match n with N0 -> "0" | _ -> go n ""

let bytes_of_hex s =
  if s = "-" then [] else
  let n = String.length s / 2 in
  List.init n (fun i -> n_of_int (int_of_string ("0x" ^ String.sub s (2 * i) 2)))
let hex_of_bytes l =
  if l = [] then "-" else String.concat "" (List.map (fun b -> Printf.sprintf "%02x" (int_of_n b)) l)
let string_of_bytes l = String.init (List.length l) (fun i -> Char.chr (int_of_n (List.nth l i)))

let err_name = function OOB -> "OOB" | Hang -> "HANG" | BadArg -> "BADARG" | TableOOB -> "TABLEOOB" | Other -> "OTHER"

let split_on c s = List.filter (fun x -> x <> "") (String.split_on_char c s)

(* ---------- dstring *)
let fill = n_of_int 0xbe

let parse_op toks = match toks with
  | ["A"; h] -> OAppend (bytes_of_hex h)
  | ["C"; c] -> OAppendC (n_of_dec c)
  | ["AA"; h; n] -> OAppendArr (bytes_of_hex h, n_of_dec n)
  | ["P"; h] -> OPrepend (bytes_of_hex h)
  | ["I"; p; h] -> OInsert (n_of_dec p, bytes_of_hex h)
  | ["IC"; p; c] -> OInsertC (n_of_dec p, n_of_dec c)
  | ["IA"; p; h; n] -> OInsertArr (n_of_dec p, bytes_of_hex h, n_of_dec n)
  | ["E"; p; l] -> OErase (n_of_dec p, n_of_dec l)
  | ["S"; p; l] -> OSubstr (n_of_dec p, n_of_dec l)
  | ["R"; p; l; o; r] -> OReplace (n_of_dec p, n_of_dec l, bytes_of_hex o, bytes_of_hex r)
  | _ -> failwith ("bad op: " ^ String.concat " " toks)

let out_str = function
  | ONone -> "-"
  | OStr None -> "S:NULL"
  | OStr (Some l) -> "S:" ^ hex_of_bytes l
  | ODelta z -> "D:" ^ string_of_int (int_of_z z)

let ds_obs (s : ds) o =
  let l = int_of_n s.len in
  let c = content s in
  let nul = (match List.nth_opt s.raw l with Some N0 -> 1 | _ -> 0) in
  Printf.sprintf "%d %s %s %d %s" l (dec_of_n s.cap) (hex_of_bytes c) nul (out_str o)

(* mode "model": the C-like model; mode "spec": the ideal string *)
let run_dstring spec line =
  match String.split_on_char ';' line with
  | [] -> ""
  | init :: ops ->
    let init = bytes_of_hex (String.trim init) in
    let ops = List.map (fun o -> parse_op (split_on ' ' o)) (List.filter (fun o -> String.trim o <> "") ops) in
    let buf = Buffer.create 256 in
    if spec then begin
      let c = ref init in
      Buffer.add_string buf (Printf.sprintf "%d %s -" (List.length !c) (hex_of_bytes !c));
      List.iter (fun o ->
        let (c', out) = sp_step !c o in
        c := c';
        Buffer.add_string buf (Printf.sprintf " | %d %s %s" (List.length c') (hex_of_bytes c') (out_str out))) ops;
      Buffer.contents buf
    end else begin
      match ds_new fill init with
      | Err e -> "ERR " ^ err_name e
      | Ok s0 ->
        let s = ref s0 in
        Buffer.add_string buf (ds_obs s0 ONone);
        (try List.iter (fun o ->
          match step fill !s o with
          | Err e -> Buffer.add_string buf (" | ERR " ^ err_name e); raise Exit
          | Ok (s', out) -> s := s'; Buffer.add_string buf (" | " ^ ds_obs s' out)) ops
         with Exit -> ());
        Buffer.contents buf
    end

(* ---------- pool *)
let pool_state (st : pstate) =
  let (hp, sl, rem) = match st.pool with
    | None -> (0, -1, -1)
    | Some pd -> (1, List.length pd.slabs, (match pd.nxt with Some (_, i) -> 1024 - int_of_n i | None -> -1)) in
  Printf.sprintf "%d %d %d %d" (int_of_z st.count) hp sl rem

let run_pool line =
  let ops = split_on ' ' line in
  let st = ref pinit in
  let buf = Buffer.create 256 in
  (try List.iteri (fun i o ->
    if i > 0 then Buffer.add_string buf " | ";
    let k = o.[0] and n = if String.length o > 1 then int_of_string (String.sub o 1 (String.length o - 1)) else 0 in
    let step1 op = match pstep !st op with
      | Err e -> Buffer.add_string buf ("ERR " ^ err_name e); raise Exit
      | Ok (s', r) -> st := s'; r in
    match k with
    | 'I' -> ignore (step1 PInit); Buffer.add_string buf (pool_state !st)
    | 'D' -> ignore (step1 PDrain); Buffer.add_string buf (pool_state !st ^ " 1")
    | 'F' -> ignore (step1 PFree); Buffer.add_string buf (pool_state !st)
    | 'A' ->
      let first = ref (-1) and last = ref (-1) and news = ref 0 and ok = ref 1 in
      for j = 0 to n - 1 do
        match step1 PAlloc with
        | Some (_, i) -> let i = int_of_n i in
          if i = 0 then incr news; if j = 0 then first := i; last := i
        | None -> ok := 0
      done;
      Buffer.add_string buf (Printf.sprintf "%s %d %d %d %d" (pool_state !st) !first !last !news !ok)
    | _ -> failwith "bad pool op") ops
  with Exit -> ());
  Buffer.contents buf

(* ---------- lemon driver: input = space separated terminal codes; output = normalised trace *)
let run_lemon line =
  let toks = List.map (fun t -> z_of_int (int_of_string t)) (split_on ' ' line) in
  let nstate = int_of_z parser_tables.yYNSTATE in
  let st s = let s = int_of_z s in if s < nstate then string_of_int s else "-" in
  match parse_document parser_tables toks with
  | Err e -> "ERR " ^ err_name e
  | Ok (stk, ev) ->
    String.concat " " (List.map (function
      | EShift (m, s) -> Printf.sprintf "S:%d:%s" (int_of_z m) (st s)
      | EReduce (r, u) -> Printf.sprintf "R:%d:%d" (int_of_z r) (int_of_z u)
      | EGoto s -> "G:" ^ st s
      | EAccept -> "A"
      | ESyntaxError m -> Printf.sprintf "E:%d" (int_of_z m)
      | EFail -> "F"
      | EOverflow -> "O") ev)

(* ---------- tree checker: input = "<srclen> <n> id:type:start:len:next:prev:child:tail:mate ..." *)
let run_tree line =
  match split_on ' ' line with
  | srclen :: _ :: toks ->
    let big = n_of_int 1073741823 in
    let nn s = let v = int_of_string s in if v < 0 then big else n_of_int v in
    let h = List.map (fun x -> match String.split_on_char ':' x with
      | [_; ty; st; ln; nx; pv; ch; _; mt] -> { ty = nn ty; st = nn st; ln = nn ln; nx = nn nx; pv = nn pv; ch = nn ch; mt = nn mt }
      | _ -> failwith "bad token") toks in
    if wf_tree h (nn srclen) then "1" else "0"
  | _ -> "0"

(* ---------- byte functions: "<name> <hex>" -> hex *)
let run_bytes line =
  match split_on ' ' line with
  | [name; h] ->
    let s = bytes_of_hex h in
    let ws = is_whitespace_or_line_ending in
    let r = match name with
      | "label" -> label_from_string s
      | "clean00" -> clean_string ws false false s
      | "clean10" -> clean_string ws true false s
      | "clean01" -> clean_string ws false true s
      | "clean11" -> clean_string ws true true s
      | "esc_html" -> esc esc_html s | "esc_html_br" -> esc esc_html_br s | "esc_latex" -> esc esc_latex s
      | "esc_odf" -> esc esc_odf s | "esc_odf_br" -> esc esc_odf_br s | "esc_opml" -> esc esc_opml s
      | "esc_itmz" -> esc esc_itmz s
      | "accept" -> critic_accept s
      | "reject" -> critic_reject s
      | "unesc" -> xml_as_text s
      | "utf8" -> if valid_utf8 s then [n_of_int 49] else [n_of_int 48]
      | "xmltext" -> if xml_safe false s then [n_of_int 49] else [n_of_int 48]
      | "xmlattr" -> if xml_safe true s then [n_of_int 49] else [n_of_int 48]
      | _ -> failwith ("unknown byte function " ^ name) in
    hex_of_bytes r
  | [name; h; a; b] ->
    let s = bytes_of_hex h in
    let r = match name with
      | "accept_range" -> critic_accept_range s (nat_of_int (int_of_string a)) (nat_of_int (int_of_string b))
      | "reject_range" -> critic_reject_range s (nat_of_int (int_of_string a)) (nat_of_int (int_of_string b))
      | _ -> failwith ("unknown byte function " ^ name) in
    hex_of_bytes r
  | _ -> "?"

(* ---------- transclusion: same case line as harness/transclude.c *)
let run_transclude line =
  match split_on ' ' line with
  | fmt :: search :: spath :: src :: files ->
    let k = match int_of_string fmt with 0 | 1 | 12 -> EHtml | 2 | 3 | 4 -> ETex | 5 | 6 -> EFodt | 11 -> EMmd | _ -> ETxt in
    let fs = List.filter_map (fun f -> match String.index_opt f '=' with
      | Some i -> Some (bytes_of_hex (String.sub f 0 i), bytes_of_hex (String.sub f (i + 1) (String.length f - i - 1)))
      | None -> None) files in
    (match transclude_top fs k (bytes_of_hex search) (bytes_of_hex spath) (bytes_of_hex src) with
     | Err e -> "ERR " ^ err_name e
     | Ok (out, st) -> String.concat " " (hex_of_bytes out :: List.map hex_of_bytes st.manifest) ^ (if st.cyc then " !" else ""))
  | _ -> "?"

(* ---------- metadata: "Q <hexsrc> <hexkey>" -> has end keys value *)
let run_meta line =
  match split_on ' ' line with
  | ["Q"; h; k] ->
    let s = bytes_of_hex h and key = bytes_of_hex k in
    let ws = is_whitespace_or_line_ending in
    (match meta_parse ws s with
     | None -> "0 0 - NULL"
     | Some (ms, e) ->
       let keys = List.concat (List.map (fun m -> m.m_key @ [n_of_int 10]) ms) in
       let v = match meta_value_for ws s key with Some v -> hex_of_bytes v | None -> "NULL" in
       Printf.sprintf "1 %d %s %s" (int_of_nat e) (hex_of_bytes keys) v)
  | ["U"; h; k; v] ->
    (* the text after mmd_string_update_metavalue_for_key *)
    hex_of_bytes (meta_update is_whitespace_or_line_ending (bytes_of_hex h) (bytes_of_hex k) (bytes_of_hex v))
  | _ -> "?"

(* ---------- anchors: "<body>|<fdefs>|<gdefs>|<cdefs>", items F<d> G<d> C<d> N<d> separated by ',', definitions by ';'
   -> flags and the anchor sequence: c<K><n>[+] call (+ = first use), e<K><n> entry, b<K><n> back link *)
let run_anchors line =
  let item s =
    let d = nat_of_int (int_of_string (String.sub s 1 (String.length s - 1))) in
    match s.[0] with 'F' -> Call (Fn, d) | 'G' -> Call (Gl, d) | 'C' -> Call (Cn, d) | 'N' -> NoCite d | _ -> failwith "bad item" in
  let items s = if s = "-" then [] else List.map item (split_on ',' s) in
  let deflist s = if s = "" then [] else List.map items (String.split_on_char ';' s) in
  match String.split_on_char '|' line with
  | [b; f; g; c] ->
    let d = { body = items b; fdefs = deflist f; gdefs = deflist g; cdefs = deflist c } in
    let kc = function Fn -> "F" | Gl -> "G" | Cn -> "C" in
    let flags = Printf.sprintf "%d%d%d" (if wf_doc d then 1 else 0) (if forward_only d then 1 else 0) (if nocite_free d then 1 else 0) in
    (match export d with
     | None -> flags ^ " HANG"
     | Some (_, tr) ->
       flags ^ " " ^ String.concat " " (List.map (function
         | ECall (k, n, fst) -> Printf.sprintf "c%s%d%s" (kc k) (int_of_nat n) (if fst then "+" else "")
         | EEntry (k, n) -> Printf.sprintf "e%s%d" (kc k) (int_of_nat n)
         | EBack (k, n) -> Printf.sprintf "b%s%d" (kc k) (int_of_nat n)) tr))
  | _ -> "?"

(* ---------- heading ids: "A <level> <closing> <hextitle>" | "S1 <n> <hextitle>" | "S2 <n> <hextitle>" | "M <hexlabel>" | "R <hextitle>"
   -> hex of the span and hex of the id *)
let run_hid line =
  match split_on ' ' line with
  | ["A"; l; c; h] -> let st = Atx (nat_of_int (int_of_string l), nat_of_int (int_of_string c)) in
    hex_of_bytes (header_span st (bytes_of_hex h)) ^ " " ^ hex_of_bytes (header_id st (bytes_of_hex h))
  | ["S1"; n; h] -> let st = Setext1 (nat_of_int (int_of_string n)) in
    hex_of_bytes (header_span st (bytes_of_hex h)) ^ " " ^ hex_of_bytes (header_id st (bytes_of_hex h))
  | ["S2"; n; h] -> let st = Setext2 (nat_of_int (int_of_string n)) in
    hex_of_bytes (header_span st (bytes_of_hex h)) ^ " " ^ hex_of_bytes (header_id st (bytes_of_hex h))
  | ["M"; h] -> "- " ^ hex_of_bytes (manual_id (bytes_of_hex h))
  | ["R"; h] -> "- " ^ hex_of_bytes (reference_label (bytes_of_hex h))
  | _ -> "?"

(* ---------- outline: "P|1,2,3" or "-|1,2" (P = text before the first heading) -> tags, levels after import, properly nested? *)
let run_outline line =
  match String.split_on_char '|' line with
  | [p; ls] ->
    let levels = List.map (fun x -> nat_of_int (int_of_string x)) (split_on ',' ls) in
    let tags = if p = "P" then OOpen :: export_tags levels [nat_of_int 100] else export_tags levels [] in
    let ts = String.concat "" (List.map (function OOpen -> "O" | OClose -> "C") tags) in
    let back = import_levels tags O in
    ts ^ " " ^ String.concat "," (List.map (fun n -> string_of_int (int_of_nat n)) back) ^ " " ^ (if properly_nested levels then "1" else "0")
  | _ -> "?"

(* ---------- metadata switch: "<flags,> <FORMAT> key=value ..." (hex) -> the settings process_metadata_stack leaves behind *)
let cstr (s : Stdlib.String.t) =
  let bit c i = (Char.code c lsr i) land 1 = 1 in
  let rec go i = if i >= String.length s then EmptyString
    else String (Ascii (bit s.[i] 0, bit s.[i] 1, bit s.[i] 2, bit s.[i] 3, bit s.[i] 4, bit s.[i] 5, bit s.[i] 6, bit s.[i] 7), go (i + 1)) in
  go 0
let ostr cs =
  let b = Buffer.create 16 in
  let rec go = function
    | EmptyString -> ()
    | String (Ascii (b0, b1, b2, b3, b4, b5, b6, b7), r) ->
      let v = List.fold_left (fun acc (x, i) -> if x then acc lor (1 lsl i) else acc) 0 [(b0,0);(b1,1);(b2,2);(b3,3);(b4,4);(b5,5);(b6,6);(b7,7)] in
      Buffer.add_char b (Char.chr v); go r in
  go cs; Buffer.contents b
let c_atoi (v : n list) =
  (* atoi: optional white space, optional sign, digits *)
  let s = string_of_bytes v in
  let n = String.length s in
  let i = ref 0 in
  while !i < n && (s.[!i] = ' ' || (s.[!i] >= '\t' && s.[!i] <= '\r')) do incr i done;
  let neg = !i < n && s.[!i] = '-' in
  if !i < n && (s.[!i] = '-' || s.[!i] = '+') then incr i;
  let acc = ref 0 in
  while !i < n && s.[!i] >= '0' && s.[!i] <= '9' && !acc < 100000000 do acc := !acc * 10 + Char.code s.[!i] - 48; incr i done;
  z_of_int (if neg then - !acc else !acc)
let run_metaswitch line =
  match split_on ' ' line with
  | flags :: fmt :: kvs ->
    let fl = List.map cstr (split_on ',' flags) in
    let st0 v = match ostr v with
      | "scratch->extensions" -> VFlags fl
      | "scratch->output_format" -> VC (cstr fmt)
      | "scratch->language" -> VC (cstr "LC_EN")
      | "scratch->quotes_lang" -> VC (cstr "ENGLISH")
      | "scratch->base_header_level" -> VZ (z_of_int 1)
      | _ -> VUnset in
    let ms = List.filter_map (fun kv -> match String.index_opt kv '=' with
      | Some i -> Some (bytes_of_hex (String.sub kv 0 i), bytes_of_hex (String.sub kv (i + 1) (String.length kv - i - 1)))
      | None -> None) kvs in
    let st = process c_atoi label_from_string ms st0 in
    let show v = match st (cstr v) with
      | VZ z -> string_of_int (int_of_z z) | VS b -> "s" ^ hex_of_bytes b | VC c -> ostr c | VFlags _ -> "flags" | VUnset -> "-" in
    Printf.sprintf "complete=%d hl=%s lang=%s quotes=%s fmt=%s bib=%s control=%s"
      (if has_flag (st (cstr "scratch->extensions")) (cstr "EXT_COMPLETE") then 1 else 0)
      (show "scratch->base_header_level") (show "scratch->language") (show "scratch->quotes_lang") (show "scratch->output_format") (show "scratch->bibtex_file")
      (String.concat "" (List.map (fun (k, _) -> if is_control k then "1" else "0") ms))
  | _ -> "?"

(* ---------- table alignment: comma separated letter codes of the separator cells -> column specification letters *)
let run_talign line =
  let cells = List.map (fun x -> n_of_int (int_of_string x)) (split_on ',' line) in
  let size = table_alignment_size in
  let rec rep k = if k = O then [] else (match k with S k' -> N0 :: rep k' | O -> []) in
  match record size record_limit cells O (rep size) with
  | None -> "OOB"
  | Some r -> String.concat "," (List.map (fun b -> string_of_int (int_of_n b)) (colspec r))

(* ---------- C03: abstract document -> source text (in a spelling) and specified HTML
   "<smart> <compat> <bullet> <emch> <lead> <closing> <rule> <tabs> <crlf> | <document tokens>" -> hex(spell) hex(render) *)
let run_spec line =
  match String.index_opt line '|' with
  | None -> "?"
  | Some k ->
    let hd = split_on ' ' (String.sub line 0 k) and toks = ref (split_on ' ' (String.sub line (k + 1) (String.length line - k - 1))) in
    let next () = match !toks with t :: r -> toks := r; t | [] -> failwith "eof" in
    let peek () = match !toks with t :: _ -> t | [] -> "" in
    let hexs t = if t = "-" then [] else bytes_of_hex t in
    let opt t = if t = "-" then None else Some (bytes_of_hex t) in
    let rec inls () = (* "(" inl* ")" *)
      if next () <> "(" then failwith "( expected";
      let acc = ref [] in
      while peek () <> ")" do acc := inl () :: !acc done;
      ignore (next ()); List.rev !acc
    and inl () =
      let t = next () in
      let body = String.sub t 1 (String.length t - 1) in
      match t.[0] with
      | 'T' -> IText (hexs body)
      | 'E' -> IEmph (inls ())
      | 'S' -> IStrong (inls ())
      | 'C' -> ICode (hexs body)
      | 'L' -> let tx = inls () in let u = next () in let ti = next () in ILink (tx, hexs u, opt ti)
      | 'A' -> IAuto (hexs body)
      | 'M' -> let u = next () in let ti = next () in IImage (hexs body, hexs u, opt ti)
      | 'X' -> IEsc (n_of_int (int_of_string body))
      | 'a' -> IAmp | 'l' -> ILt | 'g' -> IGt
      | 'N' -> IEntity (hexs body)
      | 'b' -> IBreak
      | 'U' -> ISup (hexs body) | 'D' -> ISub (hexs body) | 'H' -> IMath (hexs body)
      | 'Q' -> IQuote (inls ())
      | '2' -> IDash2 | '3' -> IDash3 | 'e' -> IEllipsis
      | 'P' -> let b = next () in IApos (hexs body, hexs b)
      | 'R' -> let tx = inls () in let lab = next () in let u = next () in let ti = next () in IRefLink (tx, hexs lab, hexs u, opt ti)
      | 'I' -> let lab = next () in let u = next () in let ti = next () in IRefImage (hexs body, hexs lab, hexs u, opt ti)
      | 'F' -> IFoot (nat_of_int (int_of_string body))
      | 's' -> ISoft
      | 'G' -> ITight (inls ())
      | _ -> failwith ("bad inline " ^ t) in
    let lines () = let acc = ref [] in while peek () <> ";" do acc := hexs (next ()) :: !acc done; ignore (next ()); List.rev !acc in
    let group f = if next () <> "(" then failwith "( expected"; let acc = ref [] in while peek () <> ")" do acc := f () :: !acc done; ignore (next ()); List.rev !acc in
    let cell () = let c = inls () in let sp = nat_of_int (int_of_string (next ())) in (c, sp) in
    let blk () =
      match next () with
      | "para" -> BPara (inls ())
      | "atx" -> let n = nat_of_int (int_of_string (next ())) in BAtx (n, inls ())
      | "setext" -> let n = nat_of_int (int_of_string (next ())) in BSetext (n, inls ())
      | "hr" -> BHr
      | "fenced" -> let l = hexs (next ()) in BFenced (l, lines ())
      | "indented" -> BIndented (lines ())
      | "quote" -> BQuote (group inls)
      | "list" -> let o = next () = "o" in let l = next () = "l" in
        BList (o, l, group (fun () -> let t = inls () in let sl = next () = "l" in let sub = group inls in (t, (sl, sub))))
      | "table" -> let al = next () in
        let aligns = List.init (String.length al) (fun i -> match al.[i] with 'l' -> ALeft | 'c' -> ACenter | 'r' -> ARight | _ -> ANone) in
        let header = group cell in let rows = group (fun () -> group cell) in BTable (aligns, header, rows)
      | "figure" -> let a = hexs (next ()) in let u = hexs (next ()) in let ti = opt (next ()) in BFigure (a, u, ti)
      | "deflist" -> BDefList (group (fun () -> let t = inls () in let ds = group inls in (t, ds)))
      | "html" -> BHtml (lines ())
      | t -> failwith ("bad block " ^ t) in
    let bl = let acc = ref [] in (while !toks <> [] && peek () <> "notes" do acc := blk () :: !acc done); List.rev !acc in
    let nts = if peek () = "notes" then (ignore (next ()); let acc = ref [] in (while !toks <> [] do acc := inls () :: !acc done); List.rev !acc) else [] in
    let doc = { blocks = bl; notes = nts } in
    (match hd with
     | [sm; cp; bu; em; ld; cl; ru; tb; cr] ->
       let o = { smart = (sm = "1"); compat = (cp = "1") } in
       let sp = { bullet = n_of_int (int_of_string bu); emch = n_of_int (int_of_string em); lead = nat_of_int (int_of_string ld);
                  closing = nat_of_int (int_of_string cl); rule = nat_of_int (int_of_string ru); tabs = (tb = "1"); crlf = (cr = "1") } in
       hex_of_bytes (spell_doc sp doc) ^ " " ^ hex_of_bytes (render_doc o sp doc)
     | _ -> "?")

(* ---------- C03 block theorem: comma separated line kinds -> "<dfa state or -> <block rules of the model's parse or ->" *)
let run_blocks line =
  let w = List.map (fun x -> z_of_int (int_of_string x)) (split_on ',' line) in
  let d = match drun dstep O w with Some a -> string_of_int (int_of_nat a) | None -> "-" in
  let f = match bc_F parser_tables nT_block base w with
    | Some l -> if l = [] then "." else String.concat "," (List.map (fun z -> string_of_int (int_of_z z)) l)
    | None -> "-" in
  d ^ " " ^ f

(* ---------- C15 tree surgery: "<hex source or -> ; op ; op ..." -> "<done> <ok> <n> type:start:len:next:prev:child:tail:mate ..." *)
let run_surgery line =
  match List.map String.trim (String.split_on_char ';' line) with
  | [] -> "?"
  | src :: ops ->
    let src = bytes_of_hex (String.trim src) in
    let nd = n_of_dec in
    let parse o = match split_on ' ' o with
      | ["N"; a; b; c] -> ONew (nd a, nd b, nd c)
      | ["C"; a] -> OCopy (nd a)
      | ["P"; a; b] -> OParent (nd a, nd b)
      | ["A"; a; b] -> OChainAppend (nd a, nd b)
      | ["H"; a; b] -> OAppendChild (nd a, nd b)
      | ["RF"; a] -> ORemoveFirst (nd a)
      | ["RL"; a] -> ORemoveLast (nd a)
      | ["RT"; a] -> ORemoveTail (nd a)
      | ["FT"; a] -> OFixTail (nd a)
      | ["PL"; a] -> OPop (nd a)
      | ["PR"; a; b] -> OPrune (nd a, nd b)
      | ["PG"; a; b; c] -> OGraft (nd a, nd b, nd c)
      | ["SP"; a; b; c; d] -> OSplit (nd a, nd b, nd c, nd d)
      | ["SC"; a; c] -> OSplitChar (nd a, nd c)
      | ["M"; a; b] -> OMate (nd a, nd b)
      | ["EM"; t; c1; c2; c3; c4; c5; c6; c7; c8; c9; c10] ->
        OEmph ({ c_star = nd c1; c_ul = nd c2; c_strong_start = nd c3; c_strong_stop = nd c4; c_emph_start = nd c5; c_emph_stop = nd c6;
                 c_pair_strong = nd c7; c_pair_emph = nd c8; c_pair_backtick = nd c9; c_pair_math = nd c10 }, nd t)
      | _ -> failwith ("bad op " ^ o) in
    let ops = List.map parse (List.filter (fun o -> o <> "") ops) in
    let ((h, dn), ok) = th_run src [] ops N0 in
    let d = dec_of_n in
    Printf.sprintf "%s %s %d" (d dn) (if ok then "ok" else "UB") (List.length h) ^
    String.concat "" (List.map (fun t -> Printf.sprintf " %s:%s:%s:%s:%s:%s:%s:%s" (d t.kty) (d t.kst) (d t.kln) (d t.knx) (d t.kpv) (d t.kch) (d t.ktl) (d t.kmt)) h)

(* ---------- C15/C07 pair matcher: "op ; op ..." -> "<done> <ok> <n> type:start:len:next:prev:child:tail:mate:co:cc:um ..." *)
let run_pairmatch line =
  let nd = n_of_dec in
  let b s = s <> "0" in
  let parse o = match split_on ' ' o with
    | ["N"; a; b; c] -> PNew (nd a, nd b, nd c)
    | ["A"; a; b] -> PChain (nd a, nd b)
    | ["P"; a; b] -> PParent (nd a, nd b)
    | ["F"; t; x; y; z] -> PFlags (nd t, b x, b y, b z)
    | ["E"; a; c; p; o] -> PPair (nd a, nd c, nd p, nd o)
    | ["MP"; p] -> PMatch (nd p)
    | _ -> failwith ("bad op " ^ o) in
  let ops = List.map parse (List.filter (fun o -> o <> "") (List.map String.trim (String.split_on_char ';' line))) in
  let ((s, dn), ok) = pm_run ({ hp = []; fl = [] }, []) ops N0 in
  let d = dec_of_n in
  let bi x = if x then "1" else "0" in
  let fls = Array.of_list s.fl in
  Printf.sprintf "%s %s %d" (d dn) (if ok then "ok" else "UB") (List.length s.hp) ^
  String.concat "" (List.mapi (fun i t ->
    let f = if i < Array.length fls then fls.(i) else { can_open = true; can_close = true; unmatched = true } in
    Printf.sprintf " %s:%s:%s:%s:%s:%s:%s:%s:%s:%s:%s" (d t.kty) (d t.kst) (d t.kln) (d t.knx) (d t.kpv) (d t.kch) (d t.ktl) (d t.kmt)
      (bi f.can_open) (bi f.can_close) (bi f.unmatched)) s.hp)

(* ---------- verified heap oracles (proofs/PairMatchProofs.v: dl_check, msym_check, order_check, proved sound):
   "<n> type:start:len:next:prev:child:tail:mate[:...] ..." -> "<dl><msym><order>" as 0/1 digits *)
let run_heapcheck line =
  match split_on ' ' line with
  | _ :: toks ->
    let big = n_of_int 1073741823 in
    let nn s = if String.length s > 0 && s.[0] = '-' then big else n_of_dec s in
    let h = List.map (fun x -> match String.split_on_char ':' x with
      | ty :: st :: ln :: nx :: pv :: ch :: tl :: mt :: _ -> { kty = nn ty; kst = nn st; kln = nn ln; knx = nn nx; kpv = nn pv; kch = nn ch; ktl = nn tl; kmt = nn mt }
      | _ -> failwith "bad token") toks in
    let b x = if x then "1" else "0" in
    b (dl_check h) ^ b (msym_check h) ^ b (order_check h)
  | _ -> "000"

(* ---------- ambidextrous markers: "<hex>" -> "<offset>:<can_open><can_close> ..." ("<offset>:!!" when the model reads outside the text) *)
let run_ambi line =
  let s = bytes_of_hex (String.trim line) in
  let b x = if x then "1" else "0" in
  String.concat " " (List.map (fun (i, r) -> string_of_int (int_of_nat i) ^ ":" ^
    (match r with Some (o, c) -> b o ^ b c | None -> "!!")) (assign_all s))

(* tokens from the real lexer: "<hex> <kind>:<start>:<len> ..." -> "<can_open><can_close><= | A | T>:<len> ..." *)
let run_ambitok line =
  match split_on ' ' line with
  | hx :: toks ->
    let s = bytes_of_hex hx in
    let b x = if x then "1" else "0" in
    let tk t = match String.split_on_char ':' t with
      | [k; st; ln] ->
        let kind = (match k with "S" -> KStar | "U" -> KUl | "B" -> KBacktick | "Q" -> KQuoteSingle | "D" -> KQuoteDouble
                                 | "N" -> KDashN | "M" -> KMath | "P" -> KSupSub | _ -> failwith "bad kind") in
        ((kind, nat_of_int (int_of_string st)), nat_of_int (int_of_string ln))
      | _ -> failwith "bad token" in
    String.concat " " (List.map (function
      | Some r -> b r.r_open ^ b r.r_close ^ (match r.r_type with Same -> "=" | ToApostrophe -> "A" | ToTextPlain -> "T") ^ ":" ^ string_of_int (int_of_nat r.r_len)
      | None -> "!!") (assign_toks s (List.map tk toks)))
  | [] -> ""

let () =
  let model = Sys.argv.(1) in
  let f = match model with
    | "dstring" -> run_dstring false
    | "dstring-spec" -> run_dstring true
    | "pool" -> run_pool
    | "lemon" -> run_lemon
    | "tree" -> run_tree
    | "bytes" -> run_bytes
    | "transclude" -> run_transclude
    | "meta" -> run_meta
    | "anchors" -> run_anchors
    | "hid" -> run_hid
    | "outline" -> run_outline
    | "metaswitch" -> run_metaswitch
    | "talign" -> run_talign
    | "spec" -> run_spec
    | "blocks" -> run_blocks
    | "surgery" -> run_surgery
    | "pairmatch" -> run_pairmatch
    | "heapcheck" -> run_heapcheck
    | "ambi" -> run_ambi
    | "ambitok" -> run_ambitok
    | _ -> failwith "unknown model" in
  try while true do
    let line = input_line stdin in
    print_endline (f line)
  done with End_of_file -> ()
