#!/usr/bin/env python3
"""T-gen translator for C02(b): case labels of every writer's token switch and the set of token
types that non-writer code can put into a tree  ->  coq/gen/WriterCases.v  (syntactic analysis)."""
import os, re, sys
sys.path.insert(0, os.path.dirname(os.path.abspath(__file__)))
import common
from tr_lemon import TranslateError, strip_comments

WRITERS = [  # (name, file, function, what the default branch does, default delegates to)
    ("html", "html.c", "mmd_export_token_html", "escape", None),
    ("latex", "latex.c", "mmd_export_token_latex", "escape", None),
    ("opendocument", "opendocument-content.c", "mmd_export_token_opendocument", "escape", None),
    ("beamer", "beamer.c", "mmd_export_token_beamer", "delegate", "latex"),
    ("memoir", "memoir.c", "mmd_export_token_memoir", "delegate", "latex"),
]
# Token types that non-writer code mentions but that provably never reach a writer's main switch.
# Each entry is part of the trusted base (DESIGN.md C02(b)).
ALLOW = {
    "*": {
        "BLOCK_DEF_ABBREVIATION": "retagged BLOCK_EMPTY by process_definition_block (writer.c) before export",
        "BLOCK_DEF_CITATION": "retagged BLOCK_EMPTY by process_definition_block (writer.c) before export",
        "BLOCK_DEF_FOOTNOTE": "retagged BLOCK_EMPTY by process_definition_block (writer.c) before export",
        "BLOCK_DEF_GLOSSARY": "retagged BLOCK_EMPTY by process_definition_block (writer.c) before export",
        "BLOCK_DEF_LINK": "retagged BLOCK_EMPTY by process_definition_block (writer.c) before export",
        "PAIR_QUOTE_ALT": "pairing registered without PAIRING_PRUNE_MATCH: mates are linked, no token of the pair type is created",
        "TEXT_LINEBREAK_SP": "retyped by mmd_tokenize_string before the line is stored",
        "TEXT_NL_SP": "retyped by mmd_tokenize_string before the line is stored",
    },
    "opendocument": {
        "CODE_FENCE": "children of BLOCK_CODE_FENCED are exported by the _raw tree walker, not the main switch",
    },
}
PRODUCERS = ["mmd.c", "parser.c", "lexer.c", "writer.c", "token.c", "token_pairs.c", "critic_markup.c", "transclude.c"]


def token_types():
    h = common.read(os.path.join(common.SRC, "libMultiMarkdown.h"))
    m = re.search(r"enum token_types \{(.*?)\};", h, re.S)
    if not m:
        raise TranslateError("enum token_types not found")
    body = re.sub(r"//[^\n]*", "", strip_comments(m.group(1)))
    names = [x.strip().split("=")[0].strip() for x in body.split(",") if x.strip()]
    return names


def fn_body(src, name):
    m = re.search(r"\nvoid %s\(" % re.escape(name), src)
    if not m:
        raise TranslateError("function %s not found" % name)
    k = src.find("\n}\n", m.start())
    if k < 0:
        raise TranslateError("end of function %s not found" % name)
    return src[m.start():k]


def analyse():
    names = token_types()
    nameset = set(names)
    handled, defaults = {}, {}
    for w, f, fn, kind, deleg in WRITERS:
        src = common.read(os.path.join(common.SRC, f))
        body = fn_body(src, fn)
        # the outermost switch is on t->type; nested switches only refine cases
        labels = set(re.findall(r"\bcase\s+([A-Z][A-Z0-9_]+)\s*:", body)) & nameset
        handled[w] = labels
        d = re.findall(r"default:(.{0,400})", body, re.S)
        if not d:
            raise TranslateError("writer %s has no default branch" % w)
        last = d[-1]
        if kind == "escape" and "Unknown token type" not in last:
            raise TranslateError("writer %s: default branch no longer reports 'Unknown token type' (shape changed)" % w)
        if kind == "delegate" and ("mmd_export_token_%s" % deleg) not in last:
            raise TranslateError("writer %s: default branch no longer delegates to %s" % (w, deleg))
        defaults[w] = (kind, deleg)
    # produced: enumerators used as r-values (not only as case labels) outside the writers
    produced = set()
    for f in PRODUCERS:
        src = strip_comments(common.read(os.path.join(common.SRC, f)))
        src = re.sub(r"//[^\n]*", "", src)
        src_nocase = re.sub(r"\bcase\s+[A-Z][A-Z0-9_]+\s*:", "", src)
        for n in re.findall(r"\b[A-Z][A-Z0-9_]+\b", src_nocase):
            if n in nameset:
                produced.add(n)
    return names, handled, defaults, produced


def strip_lists():
    src = strip_comments(common.read(os.path.join(common.SRC, "mmd.c")))
    src = re.sub(r"//[^\n]*", "", src)
    body = fn_body(src, "strip_line_tokens_from_block")
    k = body.find("while (l != NULL)")
    if k < 0:
        raise TranslateError("strip_line_tokens_from_block: the loop over lines was not found (shape changed)")
    loop = body[k:]
    d = loop.rfind("default:")
    if d < 0:
        raise TranslateError("strip_line_tokens_from_block: no default branch")
    diss = sorted(set(re.findall(r"\bcase\s+(LINE_[A-Z0-9_]+)\s*:", loop[:d])))
    py = strip_comments(common.read(os.path.join(common.SRC, "parser.y")))
    retyped = sorted(set(re.findall(r"->type\s*=\s*(LINE_[A-Z0-9_]+)", py)))
    m = re.search(r"\nvoid mmd_assign_line_type\(", src)
    if not m:
        raise TranslateError("mmd_assign_line_type not found")
    abody = src[m.start():src.find("\n}\n", m.start())]
    assigned = sorted(set(re.findall(r"line->type\s*=\s*(LINE_[A-Z0-9_]+)", abody)))
    return diss, retyped, assigned


def emit(names, handled, defaults, produced):
    idx = {n: i for i, n in enumerate(names)}
    def lst(s):
        return "[" + "; ".join(str(idx[n]) for n in sorted(s, key=lambda x: idx[x])) + "]%N"
    o = ["(* GENERATED by tools/tr_writers.py from /repo/src -- do not edit.  Token types are numbered",
         "   by their position in enum token_types (libMultiMarkdown.h). *)",
         "From Coq Require Import List NArith.", "Import ListNotations.", ""]
    o.append("Definition n_token_types : N := %d." % len(names))
    o.append("Definition produced : list N := %s." % lst(produced))
    for w in handled:
        o.append("Definition handled_%s : list N := %s." % (w, lst(handled[w])))
        allow = set(ALLOW["*"]) | set(ALLOW.get(w, {}))
        missing = [a for a in allow if a not in idx]
        if missing:
            raise TranslateError("allow-list names unknown token types: %s" % missing)
        o.append("Definition allowed_%s : list N := %s." % (w, lst(allow)))
    o.append("Definition effective (w : nat) : list N :=")
    o.append("  match w with")
    ws = list(handled)
    for i, w in enumerate(ws):
        d = defaults[w][1]
        o.append("  | %d => handled_%s ++ allowed_%s%s" % (i, w, w, (" ++ handled_%s" % d) if d else ""))
    o.append("  | _ => [] end%nat.")
    o.append("Definition n_writers : nat := %d." % len(ws))
    # line kinds that strip_line_tokens_from_block dissolves into their parent block (the case labels that lead to the
    # 'Add contents of line to parent block' branch, i.e. every case label of its line switch before 'default:'), and the
    # line kinds the grammar actions and the line classifier assign
    diss, retyped, assigned = strip_lists()
    q = lambda l: "[" + "; ".join('"%s"' % x for x in l) + "]%string"
    o.append("From Coq Require Import String.")
    o.append("Definition strip_dissolved : list string := %s." % q(diss))
    o.append("Definition grammar_retyped : list string := %s." % q(retyped))
    o.append("Definition classifier_assigned : list string := %s." % q(assigned))
    o.append("(* names: %s *)" % " ".join("%d=%s" % (i, n) for i, n in enumerate(names)))
    return "\n".join(o) + "\n"


def main():
    names, handled, defaults, produced = analyse()
    changed = common.write_if_changed(os.path.join(common.COQ, "gen", "WriterCases.v"), emit(names, handled, defaults, produced))
    return names, handled, defaults, produced, changed


if __name__ == "__main__":
    names, handled, defaults, produced, ch = main()
    for w in handled:
        eff = set(handled[w]) | (set(handled[defaults[w][1]]) if defaults[w][1] else set())
        print(w, len(handled[w]), "produced-but-unhandled:", sorted(produced - eff))
