"""Seeded generators of MultiMarkdown sources shared by several checks.
 - structured(rng): mostly-valid documents built from the documented constructs
 - soup(rng): marker soup aimed at the tokenizer / pair matcher / definition extraction
 - mutate(rng, s): byte-level mutations of a document"""
import random

WORDS = ["alpha", "beta", "gamma", "delta", "omega", "voilà", "naïve", "über", "日本", "x", "a1", "Z"]
RESERVED = ["&", "<", ">", '"', "'", "\\", "{", "}", "$", "%", "#", "_", "^", "~", "|", "`", "*", "[", "]", "(", ")", "!", ":", "+", "-", "="]
OPENERS = ["[", "[^", "[#", "[?", "[>", "[%", "![", "(", "{", "{++", "{--", "{~~", "{>>", "{==", "<", "<!--", "*", "**", "_", "__",
           "`", "``", "$", "$$", "\\(", "\\[", "^", "~", "\"", "'", "{{"]
CLOSERS = ["]", ")", "}", "++}", "--}", "~~}", "<<}", "==}", "~>", ">", "-->", "*", "**", "_", "__", "`", "``", "$", "$$", "\\)", "\\]", "^", "~",
           "\"", "'", "}}", "]:", "]("]


# entity spellings: predefined, named, numeric, and case variants the lexer may or may not treat as entities
ENTITY_FORMS = ["&amp;", "&AMP;", "&Amp;", "&lt;", "&LT;", "&gt;", "&GT;", "&quot;", "&QUOT;", "&apos;", "&copy;", "&COPY;", "&nbsp;", "&#65;", "&#x41;", "&#X41;",
                "&amp", "&;", "&#;", "&#x;", "&unknown;", "&amp;amp;"]


def word(rng):
    return rng.choice(WORDS)


def text(rng, n=None, reserved=0.15):
    n = n or rng.randint(1, 6)
    out = []
    for _ in range(n):
        k = rng.random()
        out.append(rng.choice(RESERVED) if k < reserved else rng.choice(ENTITY_FORMS) if k < reserved * 1.3 else word(rng))
    return " ".join(out)


# attributes after a link / image destination: dimensions, and values with characters reserved in the target formats
ATTRS = [' width="40px"', ' height=2cm width=50%', ' class="a&b"', ' title2="x<y"', ' width="<"', " data-x='q>r'", ' class=c id=d']
FENCE_LANGS = ["", "c", "{=html}", "perl", "a&b", "x<y", "c++", 'q"r', "{=latex}", "%s_x"]


def inline(rng, depth=0):
    k = rng.random()
    t = text(rng, rng.randint(1, 3), 0.05)
    if depth > 2 or k < 0.35:
        return t
    inner = inline(rng, depth + 1)
    c = rng.choice(["emph", "strong", "code", "link", "reflink", "image", "fn", "cite", "math", "sup", "sub", "critic", "auto", "raw", "abbr", "var", "esc", "quote", "inlinenote"])
    if c == "emph": m = rng.choice("*_"); return "%s%s%s" % (m, inner, m)
    if c == "strong": m = rng.choice(["**", "__"]); return "%s%s%s" % (m, inner, m)
    if c == "code": return "`%s`" % text(rng, 2, 0.4)
    if c == "link": return "[%s](http://example.com/%s%s%s)" % (inner, word(rng), rng.choice(["", ' "Title & more"', "?a=1&b=2"]), rng.choice(["", "", ATTRS[rng.randrange(len(ATTRS))]]))
    if c == "reflink": return "[%s][%s]" % (inner, rng.choice(["ref", "ref2", ""]))
    if c == "image": return "![%s](img/%s.png%s%s%s)" % (t, word(rng), rng.choice(["", "", "?a=1&b=2"]), rng.choice(["", ' "T"']), rng.choice(["", "", ATTRS[rng.randrange(len(ATTRS))]]))
    if c == "inlinenote": return rng.choice(["[?(%s) %s]", "[>(%s) %s]", "[^%s %s]", "[#%s %s;]", "[?(%s)%s]"]) % (word(rng), t)
    if c == "fn": return "%s[^%s]" % (t, rng.choice(["fn1", "fn2", "missing"]))
    if c == "cite": return "[p. 3][#%s]" % rng.choice(["cite1", "nocite"])
    if c == "math": return rng.choice(["$%s$", "\\\\(%s\\\\)", "$$%s$$"]) % "x^2 + y_1 < z"
    if c == "sup": return "x^%s^" % word(rng)
    if c == "sub": return "H~2~O"
    if c == "critic": return rng.choice(["{++%s++}", "{--%s--}", "{~~%s~>new~~}", "{>>%s<<}", "{==%s==}"]) % t
    if c == "auto": return rng.choice(["<http://example.com/a?b=1&c=2>", "<user@example.com>", "<info@b\u00fccher.example>", "<mailto:j\u00f6rg@example.com>",
                                       "<http://example.com/\u00fc?x=\u65e5>"])
    if c == "raw": return rng.choice(["<b>%s</b>" % t, "`\\textbf{x}`{=latex}", "&amp; &#169; &copy;", rng.choice(ENTITY_FORMS) + " " + rng.choice(ENTITY_FORMS)])
    if c == "abbr": return "ABBR"
    if c == "var": return "[%title]"
    if c == "esc": return "\\" + rng.choice(RESERVED)
    return '"%s" and \'%s\' -- ... --- %s' % (t, word(rng), word(rng))


def para(rng):
    return " ".join(inline(rng) for _ in range(rng.randint(1, 4)))


def block(rng, depth=0):
    c = rng.choice(["para", "para", "atx", "setext", "hr", "fence", "indent", "quote", "bullets", "numbers", "table", "deflist",
                    "html", "comment", "toc", "defs", "math", "meta-like"])
    if c == "para": return para(rng) + rng.choice(["", "  \nsecond line", "\ncontinued"])
    if c == "atx": n = rng.randint(1, 6); return "#" * n + " " + para(rng) + rng.choice(["", " " + "#" * n, " [label]"])
    if c == "setext": return para(rng) + "\n" + rng.choice(["=====", "-----", "=", "--"])
    if c == "hr": return rng.choice(["* * *", "---", "___", "*****"])
    if c == "fence": f = rng.choice(["```", "````", "`````"]); return "%s%s\n%s\n%s" % (f, rng.choice(FENCE_LANGS), text(rng, 4, 0.5), f)
    if c == "indent": return "    " + text(rng, 3, 0.5) + "\n\tmore <code> & stuff"
    if c == "quote": return "\n".join("> " + l for l in block(rng, depth + 1).split("\n")) if depth < 2 else "> " + para(rng)
    if c in ("bullets", "numbers"):
        items = []
        for i in range(rng.randint(1, 4)):
            m = rng.choice("*+-") if c == "bullets" else "%d." % (i + 1)
            it = para(rng)
            if depth < 2 and rng.random() < 0.3:
                it += "\n\n" + "\n".join("    " + l for l in block(rng, depth + 1).split("\n"))
            items.append("%s %s" % (m, it))
        return ("\n\n" if rng.random() < 0.3 else "\n").join(items)
    if c == "table":
        cols = rng.choice([1, 2, 3, 5])
        head = "| " + " | ".join(word(rng) for _ in range(cols)) + " |"
        sep = "|" + "|".join(rng.choice([":--", "--:", ":-:", "---"]) for _ in range(cols)) + "|"
        rows = ["| " + " | ".join(inline(rng) for _ in range(cols)) + " |" for _ in range(rng.randint(1, 3))]
        return "\n".join([head, sep] + rows + ([rng.choice(["[Caption %s]" % word(rng), "[Cap][lbl]"])] if rng.random() < 0.3 else []))
    if c == "deflist": return "%s\n: %s\n: %s" % (word(rng), para(rng), para(rng))
    if c == "html": return rng.choice(["<div>\n%s\n</div>" % para(rng), "<div markdown=1>\n*x*\n</div>", "<hr />"])
    if c == "comment": return "<!-- %s -->" % text(rng, 3, 0.3)
    if c == "toc": return rng.choice(["{{TOC}}", "{{TOC:2-3}}"])
    if c == "defs": return "\n".join(rng.sample(["[ref]: http://example.com/r \"Ref & Title\"", "[ref2]: <http://example.com/2> class=x",
                                                 "[^fn1]: Footnote *one*.", "[^fn2]: Two\n    continued", "[#cite1]: Author. *Title*. 2020.",
                                                 "[>ABBR]: Abbreviation", "[?term]: Glossary entry"], rng.randint(1, 4)))
    if c == "math": return "$$ a & b \\\\ c $$"
    return "%s: %s" % (word(rng).capitalize(), text(rng))


def metadata(rng):
    keys = ["Title", "Author", "Date", "Base Header Level", "Language", "CSS", "latex mode", "Quotes Language", "HTML Header", "X-Custom Key", "bibtex"]
    n = rng.randint(0, 4)
    if n == 0:
        return ""
    lines = []
    for k in rng.sample(keys, n):
        v = {"Base Header Level": str(rng.randint(1, 4)), "Language": rng.choice(["en", "de", "fr", "sv"]),
             "Quotes Language": rng.choice(["english", "german", "french"]), "latex mode": rng.choice(["memoir", "beamer", "article"])}.get(k, text(rng, 3, 0.2))
        lines.append("%s: %s" % (k, v))
    return "\n".join(lines) + "\n\n"


def structured(rng, nblocks=None, meta=True):
    nblocks = nblocks or rng.randint(1, 8)
    body = "\n\n".join(block(rng) for _ in range(nblocks)) + rng.choice(["\n", "", "\n\n"])
    return (metadata(rng) if meta and rng.random() < 0.4 else "") + body


def soup_line(rng):
    k = rng.random()
    toks = OPENERS + CLOSERS + RESERVED + WORDS + [" ", " ", "  ", "\t", "1.", "#", ">", "|", ":", "---", "==="]
    if k < 0.25:    # definition-like lines with odd labels
        lab = "".join(rng.choice(["[", "]", "^", "#", "?", ">", "%", "x", "1", " ", "*", "\\", "`"]) for _ in range(rng.randint(0, 6)))
        return "%s%s]:%s%s" % (rng.choice(["[", "[^", "[#", "[?", "[>", " [", "  ["]), lab, rng.choice([" ", "", "\t"]),
                              rng.choice(["http://x.y/", "<http://x.y>", "", "text *em*", '"t"', "a=b"]))
    if k < 0.35:    # table-ish
        return "".join(rng.choice(["|", "-", ":", " ", "a", "=", "+", "\\|", "`"]) for _ in range(rng.randint(1, 12)))
    return "".join(rng.choice(toks) for _ in range(rng.randint(1, 10)))


def soup(rng, nlines=None):
    nlines = nlines or rng.randint(1, 10)
    sep = rng.choice(["\n", "\n", "\r\n", "\n\n"])
    return sep.join(soup_line(rng) for _ in range(nlines)) + rng.choice(["\n", "", "\r\n"])


def mutate(rng, s):
    b = bytearray(s.encode("utf-8", "replace"))
    for _ in range(rng.randint(1, 4)):
        if not b:
            b += bytes([rng.randint(1, 255)]); continue
        i = rng.randrange(len(b))
        op = rng.random()
        if op < 0.3: del b[i]
        elif op < 0.6: b.insert(i, rng.choice([0x0a, 0x0d, 0x20, 0x09, 0x5b, 0x5d, 0x2a, 0x60, 0x7c, 0xa0, 0xc2, 0xc3, 0xe2, 0xff, 0x01]))
        elif op < 0.8: b[i] = rng.randint(1, 255)
        else: b[i:i] = b[max(0, i - 8):i]
    return bytes(b.replace(b"\0", b" "))


def mixed(rng):
    k = rng.random()
    if k < 0.5: return structured(rng)
    if k < 0.85: return soup(rng)
    return structured(rng, 2) + soup(rng, 3)


def corpus_docs(limit=None):
    """the repository's own test documents (tests/*/*.text), as bytes"""
    import glob, os
    root = os.environ.get("VERIF_REPO", "/repo")
    out = []
    for p in sorted(glob.glob(os.path.join(root, "tests", "MMD6Tests", "*.text")) + glob.glob(os.path.join(root, "tests", "CriticMarkup", "*.text"))):
        try:
            out.append(open(p, "rb").read().replace(b"\0", b" "))
        except OSError:
            pass
    return out[:limit] if limit else out
