"""Documents with reserved characters planted in every text position (C04, C08), together with the
list of planted runs and where they were put.  No raw HTML, no raw-source passthrough."""
import random

# (HTML entity references such as &amp; or &#169; are raw-HTML passthrough by design and are not planted)
RES_TOKENS = ["&", "<", ">", '"', "'", "%", "#", "{", "}", "$", "~", "^", "a_b", "a\\b", "AT&T", "1<2", "x>y", "=", "+", ";"]
UTF = ["é", "日本", "ü", "—", "😀"]


def run(rng, k, allow_quote=True, pipe_safe=True, no_hash=False, no_brace=False):
    """a planted text run: a unique marker word followed by reserved tokens separated by spaces"""
    toks = [t for t in rng.sample(RES_TOKENS, rng.randint(1, 5)) if (allow_quote or t not in ('"', "'")) and not (no_hash and t == "#") and not (no_brace and t in "{}")]
    if rng.random() < 0.3 or not toks:
        toks.append(rng.choice(UTF))
    return "Zq%dx %s" % (k, " ".join(toks))


# ("Language" is a control key whose value also goes into the lang attribute of a complete HTML / XHTML document)
META_KEYS = ["Title", "Author", "Date", "Copyright", "UUID", "Keywords", "Subject", "Affiliation", "Email", "Web", "Custom Key", "Revision", "Language"]


def document(rng, nested_notes=True, meta=None):
    """returns (source text, [(position, marker word, run text)])"""
    planted = []
    k = [rng.randint(100, 899) * 10]
    def r(pos, **kw):
        k[0] += 1
        t = run(rng, k[0], **kw)
        planted.append((pos, "Zq%dx" % k[0], t))
        return t
    blocks = []
    kinds = ["para", "heading", "list", "table", "link", "image", "footnote", "codespan", "codeblock", "quote", "deflist", "strong", "setext", "fence", "autolink", "reflink", "citation"]
    rng.shuffle(kinds)
    notes = []
    for kind in kinds[: rng.randint(3, len(kinds))]:
        if kind == "para": blocks.append(r("paragraph"))
        elif kind == "heading": blocks.append("#" * rng.randint(1, 4) + " " + r("heading", no_hash=True))
        elif kind == "setext": blocks.append(r("heading", no_hash=True) + "\n" + rng.choice(["=====", "-----"]))
        elif kind == "list": blocks.append("\n".join("%s %s" % (rng.choice(["*", "-", "1."]), r("list item")) for _ in range(rng.randint(1, 3))))
        elif kind == "table": blocks.append("| %s | %s |\n|---|:-:|\n| %s | %s |" % (r("table cell"), r("table cell"), r("table cell"), r("table cell")))
        elif kind == "link": blocks.append("See [%s](http://example.com/?a=1&b=%d \"%s\") ok." % (r("link text", allow_quote=False), k[0], r("link title", allow_quote=False)))
        elif kind == "image": blocks.append("Pic ![%s](img%d.png \"%s\") here." % (r("image alt", allow_quote=False), k[0], r("image title", allow_quote=False)))
        elif kind == "footnote":
            n = len(notes) + 1
            blocks.append("Noted%d[^n%d]." % (n, n))
            if nested_notes and rng.random() < 0.5:
                notes.append("[^n%d]: %s and more[^m%d]." % (n, r("footnote"), n))
                notes.append("[^m%d]: %s" % (n, r("nested footnote")))
            else:
                notes.append("[^n%d]: %s" % (n, r("footnote")))
        elif kind == "autolink":
            # the URL is both the target (attribute / argument position) and the visible text
            k[0] += 1
            blocks.append("Auto <http://example.com/p%d?a=1&b=2&c=%s> link." % (k[0], rng.choice(["3", "x_y", "%20", "~t", "#f"])))
            if rng.random() < 0.5:
                blocks.append("Mail <%s> here." % rng.choice(["user%d@example.com" % k[0], "info@b\u00fccher.example", "mailto:j\u00f6rg%d@example.com" % k[0]]))
        elif kind == "reflink":
            k[0] += 1
            blocks.append("Ref [%s][r%d] link." % (r("link text", allow_quote=False), k[0]))
            notes.append("[r%d]: http://example.com/r%d?a=1&b=2 \"%s\"" % (k[0], k[0], r("link title", allow_quote=False)))
        elif kind == "citation":
            # the locator of a citation is document text (braces left out: a lone brace in the LaTeX locator would be reported as broken nesting)
            loc = r("citation locator", allow_quote=False, no_brace=True)
            blocks.append("Cited [%s][#ck%d] here." % (loc, k[0]))
            notes.append("[#ck%d]: Source %d." % (k[0], k[0]))
        elif kind == "codespan": blocks.append("Code `%s` span." % r("code span"))
        elif kind == "codeblock": blocks.append("    " + r("code block"))
        elif kind == "fence":
            lang = ""
            if rng.random() < 0.5:
                # a language specifier (one word) made of a marker and reserved characters: it is printed in an attribute (HTML)
                # or an optional argument (LaTeX), never as text
                k[0] += 1
                lang = "Zq%dx" % k[0] + "".join(rng.sample(["&", "%", "#", "$", "_", "<", ">", "{", "}", "~", "^", "\""], rng.randint(1, 4)))
                planted.append(("fence language", "Zq%dx" % k[0], lang))
            blocks.append("```%s\n%s\n```" % (lang, r("code block")))
        elif kind == "quote": blocks.append("> " + r("block quote"))
        elif kind == "deflist": blocks.append("Term%d\n: %s" % (k[0], r("definition")))
        elif kind == "strong": blocks.append("Some **%s** and *%s*." % (r("strong"), r("emphasis")))
    rng.shuffle(notes)
    src = "\n\n".join(blocks + notes) + "\n"
    if meta is None:
        meta = rng.random() < 0.4
    if meta:
        lines = ["%s: %s" % (key, r("metadata value")) for key in rng.sample(META_KEYS, rng.randint(1, 4))]
        if rng.random() < 0.3:
            lines.append("Base Header Level: %d" % rng.randint(1, 3))
        src = "\n".join(lines) + "\n\n" + src
    return src, planted
