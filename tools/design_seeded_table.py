#!/usr/bin/env python3
"""Rewrites the seeded-change table of DESIGN.md (section 0.5) from seeded/RESULTS.json and seeded/*/meta.json."""
import json, os, re
V = os.path.dirname(os.path.dirname(os.path.abspath(__file__)))
res = json.load(open(os.path.join(V, "seeded", "RESULTS.json")))
rows = ["| id | seeded change (first lines of the sub-agent's summary) | caught by | violation keys |", "|----|----|----|----|"]
missed = []
for pid in sorted(res):
    m = json.load(open(os.path.join(V, "seeded", pid, "meta.json")))
    summ = re.sub(r"\s+", " ", m.get("summary", ""))[:230].replace("|", "/")
    r = res[pid]
    tier = "quick" if r.get("quick", {}).get("rc") else ("thorough" if r.get("thorough", {}).get("rc") else "MISSED")
    if tier == "MISSED": missed.append(pid)
    keys = ", ".join(((r.get("quick") if r.get("quick", {}).get("rc") else r.get("thorough")) or {}).get("violations", [])[:4])
    rows.append("| %s | %s… | %s | %s |" % (pid, summ, tier, keys))
text = "\n".join(rows) + "\n"
d = open(os.path.join(V, "DESIGN.md")).read()
b, e = "<!-- SEEDED-BEGIN -->", "<!-- SEEDED-END -->"
assert b in d and e in d
d = d[:d.index(b) + len(b)] + "\n" + text + d[d.index(e):]
open(os.path.join(V, "DESIGN.md"), "w").write(d)
print("rows", len(rows) - 2, "missed", missed)
