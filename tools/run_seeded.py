#!/usr/bin/env python3
"""Applies each seeded change (seeded/<id>/patch.diff) to /repo, runs the property's check, restores the tree.
Writes seeded/RESULTS.json: which tier caught it, with which violation keys.  Never leaves /repo modified."""
import json, os, re, subprocess, sys
V = os.path.dirname(os.path.dirname(os.path.abspath(__file__)))
ids = sys.argv[1:] or sorted(d for d in os.listdir(os.path.join(V, "seeded")) if re.match(r"C\d\d[a-z]?$", d))
res = {}
try: res = json.load(open(os.path.join(V, "seeded", "RESULTS.json")))
except Exception: pass
# the evidence files, generated Coq files and replays written during these runs describe the modified tree: they are
# put back as they were before (the clean-tree runs own them)
import shutil, tempfile
keep = tempfile.mkdtemp(prefix="seeded-keep-")
for d in ("evidence", os.path.join("coq", "gen")):
    shutil.copytree(os.path.join(V, d), os.path.join(keep, d))
for pid in ids:
    patch = os.path.join(V, "seeded", pid, "patch.diff")
    assert subprocess.run(["git", "-C", "/repo", "status", "--porcelain", "--untracked-files=no"], capture_output=True, text=True).stdout.strip() == "", "/repo is not clean"
    if subprocess.run(["git", "-C", "/repo", "apply", patch]).returncode != 0:
        res[pid] = dict(applies=False); continue
    try:
        out = {}
        for tier in ("quick", "thorough"):
            r = subprocess.run([sys.executable, os.path.join(V, "check.py"), pid[:3], "--tier", tier], capture_output=True, text=True, cwd=V, timeout=7200,
                               env=dict(os.environ, VERIF_SEED=os.environ.get("VERIF_SEED", "0")))
            viol = re.findall(r"^VIOLATION property=\S+ replay=\S*/([^/\s]+?)_\d+\.json( no-failing-input-found)?", r.stdout, re.M)
            out[tier] = dict(rc=r.returncode, violations=[v[0] + (" (no-failing-input-found)" if v[1] else "") for v in viol])
            if r.returncode != 0: break
        res[pid] = dict(applies=True, **out)
    finally:
        subprocess.run(["git", "-C", "/repo", "checkout", "--", "."])
    print(pid, json.dumps(res[pid]), flush=True)
    json.dump(res, open(os.path.join(V, "seeded", "RESULTS.json"), "w"), indent=1)
for d in ("evidence", os.path.join("coq", "gen")):
    for f in os.listdir(os.path.join(keep, d)):
        shutil.copy(os.path.join(keep, d, f), os.path.join(V, d, f))      # (new modification time: compiled files built from the modified tree are out of date)
shutil.rmtree(keep, ignore_errors=True)
shutil.rmtree(os.path.join(V, "replays"), ignore_errors=True)
