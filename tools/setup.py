#!/usr/bin/env python3
"""setup_cmd: build everything that can be built ahead of time (Coq library, extraction, driver,
repo variants, harnesses).  Offline; uses only files on disk."""
import os, sys
sys.path.insert(0, os.path.dirname(os.path.abspath(__file__)))
import common

def main():
    ok, out = common.coq_make([], timeout=3000)     # everything in _CoqProject
    if not ok:
        common.log(out[-3000:])
        common.log("setup: some Coq files failed to build (the checks will report them)")
    try:
        common.extract_driver()
    except Exception as e:
        common.log("setup: driver build failed: %r" % (e,))
    for v in ("asan", "asan-nopool", "o2", "o2-nopool", "o0-su"):
        try:
            common.build_variant(v)
        except Exception as e:
            common.log("setup: variant %s failed: %r" % (v, e))
    hd = os.path.join(common.VERIF, "harness")
    for h in sorted(os.listdir(hd)):
        if h.endswith(".c"):
            try:
                common.build_harness("asan", h[:-2])
            except Exception as e:
                common.log("setup: harness %s failed: %r" % (h, e))
    return 0

if __name__ == "__main__":
    sys.exit(main())
