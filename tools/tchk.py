"""Helpers for the T-chk parts (testing with oracles): run conversions through harness/conv.c."""
import common

FMT = dict(html=0, epub=1, latex=2, beamer=3, memoir=4, fodt=5, odt=6, textbundle=7, bundlezip=8, opml=9, itmz=10, mmd=11)
EXT = dict(compat=1 << 0, complete=1 << 1, snippet=1 << 2, smart=1 << 3, notes=1 << 4, nolabels=1 << 5, process_html=1 << 6,
           nometa=1 << 7, obfuscate=1 << 8, critic=1 << 9, accept=1 << 10, reject=1 << 11, random_foot=1 << 12,
           transclude=1 << 13, opml_in=1 << 14, itmz_in=1 << 15, random_labels=1 << 16)
TEXTUAL = ["html", "latex", "beamer", "memoir", "fodt", "opml"]


class Result:
    __slots__ = ("doc", "fmt", "ext", "lang", "status", "done", "stderr", "out", "raw")
    def ok(self):
        return self.status == "0" and self.done == "1"


PACKAGED = ["epub", "odt", "bundlezip", "itmz", "textbundle"]
DATA_API = PACKAGED + ["fodt"]      # formats whose complete result only the *_convert_to_data API assembles


def members(zipbytes):
    """name -> bytes for every member of a zip archive given as bytes (raises on a broken archive)"""
    import io, zipfile
    z = zipfile.ZipFile(io.BytesIO(zipbytes))
    return {n: z.read(n) for n in z.namelist()}, z


def xml_error(b):
    """None if b parses as well-formed XML (expat), else the error text"""
    import xml.parsers.expat as expat
    p = expat.ParserCreate()
    try:
        p.Parse(b, True); return None
    except expat.ExpatError as e:
        return str(e)


def convert(jobs, variant="asan", data=False, directory=None, string_api=False):
    """jobs: list of (doc bytes, fmt name, ext int, lang int) -> list of Result; directory: where assets are looked up (data API only)"""
    har = common.build_harness(variant, "conv")
    dsuf = (" " + directory.encode().hex()) if directory else ""
    cases = ["%d %d %d %s%s" % (FMT[f], e, l, d.hex() or "-", (" D" + dsuf) if (f in DATA_API or data) and not string_api else "") for d, f, e, l in jobs]
    outs = common.run_lines_par(har, cases, timeout=3600)
    res = []
    for (d, f, e, l), o in zip(jobs, outs):
        r = Result(); r.doc, r.fmt, r.ext, r.lang, r.raw = d, f, e, l, o
        p = o.split(" ")
        if o.startswith("CRASH") or len(p) < 4:
            r.status, r.done, r.stderr, r.out = "harness", "0", o, b""
        else:
            r.status, r.done = p[0], p[1]
            r.stderr = bytes.fromhex(p[2]).decode("latin-1") if p[2] != "-" else ""
            r.out = bytes.fromhex(p[3]) if p[3] != "-" else b""
        res.append(r)
    return res


def shrink_doc(doc, failing, by_lines=True):
    """ddmin a failing document (bytes): first by lines, then by bytes (bounded)"""
    try:
        if by_lines:
            lines = doc.split(b"\n")
            if len(lines) > 1:
                doc = b"\n".join(common.ddmin(lines, lambda sub: failing(b"\n".join(sub))))
        if len(doc) <= 400:
            doc = b"".join(common.ddmin([bytes([c]) for c in doc], lambda sub: failing(b"".join(sub))))
    except Exception:
        pass
    return doc
