#!/usr/bin/env python3
"""T-gen translator for C05 / C17 (and the call graph part of C07): from the objects compiled from
/repo's working tree with -O2 -ffunction-sections -fdata-sections (pool and no-pool builds):
 * every data symbol with its section class (rodata / relro / data / bss / tls)
 * the reference graph  symbol -> {symbols}  from the relocation records of each section
 * undefined (imported) symbols
 -> coq/gen/Globals.v : writable data and libc imports reachable from the public entry points.
The relocation graph over-approximates accesses (every address taken is an edge)."""
import collections, json, os, re, subprocess, sys
sys.path.insert(0, os.path.dirname(os.path.abspath(__file__)))
import common
from tr_lemon import TranslateError

ENTRY_RE = re.compile(r"^mmd_(string|d_string|engine)_")
LIB_OBJECTS = common.LIB_SOURCES          # main.c / argtable3.c are the CLI, not the library


def sec_class(sec):
    if sec.startswith((".rodata", ".data.rel.ro")): return "ro"
    if sec.startswith((".tdata", ".tbss")): return "tls"
    if sec.startswith(".data"): return "data"
    if sec.startswith(".bss"): return "bss"
    if sec.startswith(".text"): return "text"
    return "other"


def base_fn(name):
    """fold gcc clones (.cold, .part.N, .isra.N, .constprop.N) into their function"""
    return re.sub(r"\.(cold|part|isra|constprop|lto_priv)(\.\d+)?", "", name)


def analyse(variant):
    vdir = common.build_variant(variant)
    sym_sec, defined, undefined = {}, set(), set()
    sec_owner = {}          # section name -> symbol defined there (function/data sections hold one symbol)
    edges = collections.defaultdict(set)
    for s in LIB_OBJECTS:
        obj = os.path.join(vdir, "obj", s + ".o")
        t = subprocess.run(["objdump", "-t", obj], capture_output=True, text=True).stdout
        local_sec_owner = {}
        for ln in t.splitlines():
            if "*UND*" in ln:
                undefined.add(ln.split()[-1]); continue
            m = re.match(r"^[0-9a-f]+\s+(\S)\s+(\S*)\s+(\S+)\s+[0-9a-f]+\s+(?:\.hidden\s+)?(\S+)$", ln)
            if not m:
                m2 = re.match(r"^[0-9a-f]+\s+(\S)\s+(\S)\s+(\S+)\s+[0-9a-f]+\s+(\S+)$", ln)
                if not m2:
                    continue
                bind, typ, sec, name = m2.groups()
            else:
                bind, typ, sec, name = m.groups()
            if sec == "*UND*":
                undefined.add(name); continue
            if typ in ("F", "O") or (typ == "" and sec.startswith((".bss", ".data", ".rodata"))):
                key = name if bind == "g" else "%s:%s" % (s, name)       # file-local symbols are qualified
                nm = base_fn(key)
                sym_sec[nm] = sec
                defined.add(nm)
                local_sec_owner.setdefault(sec, nm)
        r = subprocess.run(["objdump", "-r", obj], capture_output=True, text=True).stdout
        cur = None
        for ln in r.splitlines():
            m = re.match(r"^RELOCATION RECORDS FOR \[(.*)\]:", ln)
            if m:
                sec = m.group(1)
                sec = re.sub(r"^\.text\.unlikely\.", ".text.", sec)
                cur = local_sec_owner.get(sec) or local_sec_owner.get(base_fn(sec))
                if cur is None and sec.startswith(".text."):
                    cur = base_fn(sec[len(".text."):])
                    cur = cur if cur in defined else "%s:%s" % (s, cur)
                continue
            m = re.match(r"^[0-9a-f]+\s+R_\S+\s+(\S+?)(?:[-+]0x[0-9a-f]+)?$", ln)
            if m and cur:
                tgt = m.group(1)
                if tgt.startswith(".LC") or tgt.startswith(".rodata.str") or tgt.startswith(".rodata.cst"):
                    continue
                if tgt.startswith("."):
                    tgt2 = local_sec_owner.get(tgt) or local_sec_owner.get(re.sub(r"^\.text\.unlikely\.", ".text.", tgt))
                    if tgt2 is None:
                        # a section symbol we cannot attribute: keep it as an opaque node of its class
                        tgt2 = "%s:%s" % (s, tgt)
                        sym_sec.setdefault(tgt2, tgt)
                    tgt = tgt2
                else:
                    tgt = base_fn(tgt)
                    if tgt not in defined and ("%s:%s" % (s, tgt)) in defined:
                        tgt = "%s:%s" % (s, tgt)
                edges[cur].add(tgt)
    undefined -= set(n for n in defined if ":" not in n)
    roots = sorted(n for n in defined if ENTRY_RE.match(n) and sec_class(sym_sec[n]) == "text")
    if len(roots) < 30:
        raise TranslateError("only %d public entry points found in the %s objects" % (len(roots), variant))
    seen, work = set(roots), list(roots)
    while work:
        n = work.pop()
        for m in edges.get(n, ()):
            if m not in seen:
                seen.add(m); work.append(m)
    writable = sorted(n for n in seen if n in sym_sec and sec_class(sym_sec[n]) in ("data", "bss"))
    tls = sorted(n for n in seen if n in sym_sec and sec_class(sym_sec[n]) == "tls")
    imports = sorted(n for n in seen if n in undefined)
    fn_edges = {k: sorted(v) for k, v in edges.items()}
    return dict(roots=roots, reachable=len(seen), writable=writable, tls=tls, imports=imports, edges=fn_edges,
                sections={k: v for k, v in sym_sec.items()})


def coq_strings(xs):
    return "[" + "; ".join('"%s"' % x for x in xs) + "]"


def main():
    pool = analyse("o2")
    nopool = analyse("o2-nopool")
    o = ["(* GENERATED by tools/tr_globals.py from the -O2 -ffunction-sections -fdata-sections objects of /repo -- do not edit *)",
         "From Coq Require Import List String.", "Import ListNotations.", "Open Scope string_scope.", ""]
    o.append("Definition entry_points : list string := %s." % coq_strings(pool["roots"]))
    o.append("Definition reachable_writable_pool : list string := %s." % coq_strings(pool["writable"]))
    o.append("Definition reachable_writable_nopool : list string := %s." % coq_strings(nopool["writable"]))
    o.append("Definition reachable_tls_nopool : list string := %s." % coq_strings(nopool["tls"]))
    o.append("Definition reachable_imports_pool : list string := %s." % coq_strings(pool["imports"]))
    o.append("Definition reachable_imports_nopool : list string := %s." % coq_strings(nopool["imports"]))
    ch = common.write_if_changed(os.path.join(common.COQ, "gen", "Globals.v"), "\n".join(o) + "\n")
    os.makedirs(os.path.join(common.BUILD, "gen"), exist_ok=True)
    json.dump(dict(pool=pool, nopool=nopool), open(os.path.join(common.BUILD, "gen", "globals.json"), "w"))
    return pool, nopool, ch


if __name__ == "__main__":
    p, n, ch = main()
    print(len(p["roots"]), "entry points;", p["reachable"], "reachable symbols")
    print("writable (pool):", p["writable"])
    print("writable (nopool):", n["writable"])
    print("imports:", p["imports"])
