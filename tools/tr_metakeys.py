#!/usr/bin/env python3
"""T-gen translator for C20: process_metadata_stack and the per-format wrapper logic of
mmd_engine_export_token_tree (writer.c) -> coq/gen/MetaKeys.v as a MiniC program (lib/MiniC.v).
Recognised: the early-return guard on extension flags, local initialisers, the for loop over the metadata
stack whose body is one if / else-if chain on strcmp(m->key, "..."), and the statement after the loop.
Statement forms: if/else, assignments of constants / atoi(m->value) / label_from_string(m->value) /
my_strdup(m->value) / variables, 'x |= FLAG', free(x).  Anything else fails the translation."""
import os, re, sys
sys.path.insert(0, os.path.dirname(os.path.abspath(__file__)))
import common
from tr_lemon import TranslateError, strip_comments

TOK = re.compile(r'\s*("(?:[^"\\]|\\.)*"|->|\|\||&&|==|!=|\|=|[A-Za-z_][A-Za-z_0-9]*|-?\d+|[{}();,=!&<>\[\]*+\-.])')


def strip_c_comments(src):
    """remove // and /* */ comments, leaving string and character literals alone"""
    out, i, n = [], 0, len(src)
    while i < n:
        c = src[i]
        if c in "\"'":
            j = i + 1
            while j < n and src[j] != c:
                j += 2 if src[j] == "\\" else 1
            out.append(src[i:j + 1]); i = j + 1
        elif src.startswith("//", i):
            j = src.find("\n", i)
            i = n if j < 0 else j
        elif src.startswith("/*", i):
            j = src.find("*/", i + 2)
            i = n if j < 0 else j + 2
            out.append(" ")
        else:
            out.append(c); i += 1
    return "".join(out)


def tokenize(text):
    toks, pos = [], 0
    text = text.strip()
    while pos < len(text):
        m = TOK.match(text, pos)
        if not m:
            raise TranslateError("cannot tokenize near %r" % text[pos:pos + 40])
        toks.append(m.group(1)); pos = m.end()
    return toks


def function_body(src, name):
    m = re.search(r"\n[A-Za-z_][A-Za-z_ \*]*\b%s\s*\([^)]*\)\s*\{" % re.escape(name), src)
    if not m:
        raise TranslateError("function %s not found" % name)
    depth, i = 1, m.end()
    while depth:
        c = src[i]
        if c == "{": depth += 1
        elif c == "}": depth -= 1
        elif c == '"':
            i += 1
            while src[i] != '"':
                i += 2 if src[i] == "\\" else 1
        i += 1
    return src[m.end():i - 1]


class P:
    """recursive descent over the token list"""
    def __init__(self, toks): self.t, self.i = toks, 0
    def peek(self, k=0): return self.t[self.i + k] if self.i + k < len(self.t) else None
    def eat(self, x=None):
        tok = self.peek()
        if tok is None or (x is not None and tok != x):
            raise TranslateError("expected %r, found %r (at token %d: ...%s)" % (x, tok, self.i, " ".join(self.t[max(0, self.i - 6):self.i + 3])))
        self.i += 1
        return tok

    def lvalue(self):
        name = self.eat()
        if not re.match(r"[A-Za-z_]", name): raise TranslateError("identifier expected, found %r" % name)
        while self.peek() == "->":
            self.eat(); name += "->" + self.eat()
        return name

    def expr(self):
        tok = self.peek()
        if tok in ("atoi", "label_from_string", "my_strdup"):
            self.eat(); self.eat("("); arg = self.lvalue(); self.eat(")")
            if arg != "m->value": raise TranslateError("%s applied to %s" % (tok, arg))
            return {"atoi": "EAtoi", "label_from_string": "ELabel", "my_strdup": "EDup"}[tok]
        if re.match(r"-?\d+$", tok):
            self.eat(); return "(EInt (%s))" % tok
        if tok == "-":
            self.eat(); n = self.eat(); return "(EInt (-%s))" % n
        name = self.lvalue()
        if re.match(r"[A-Z][A-Z_0-9]*$", name): return '(EConst "%s")' % name
        return '(EVar "%s")' % name

    def prim(self):
        tok = self.peek()
        if tok == "!":
            self.eat(); self.eat("("); v = self.lvalue(); self.eat("&"); f = self.eat(); self.eat(")")
            return '(CNotMask "%s" "%s")' % (v, f)
        if tok == "(":
            # "(x & FLAG)" or a parenthesised condition
            save = self.i
            self.eat("(")
            try:
                v = self.lvalue()
                if self.peek() == "&":
                    self.eat("&"); f = self.eat(); self.eat(")")
                    return '(CMask "%s" "%s")' % (v, f)
            except TranslateError:
                pass
            self.i = save
            self.eat("("); c = self.cond(); self.eat(")")
            return c
        if tok == "strcmp":
            self.eat(); self.eat("("); v = self.lvalue(); self.eat(","); lit = self.eat(); self.eat(")"); self.eat("=="); z = self.eat()
            if z != "0" or not lit.startswith('"'): raise TranslateError("only strcmp(x, \"lit\") == 0 is recognised")
            return ("STRCMP", v, lit[1:-1])
        v = self.lvalue()
        op = self.eat()
        if op not in ("==", "!="): raise TranslateError("comparison expected after %s, found %r" % (v, op))
        e = self.expr()
        return '(%s "%s" %s)' % ("CEq" if op == "==" else "CNe", v, e)

    def cond(self):
        a = self.conj()
        while self.peek() == "||":
            self.eat(); b = self.conj(); a = "(COr %s %s)" % (strcmp_to_coq(a), strcmp_to_coq(b))
        return a

    def conj(self):
        a = self.prim()
        while self.peek() == "&&":
            self.eat(); b = self.prim(); a = "(CAnd %s %s)" % (strcmp_to_coq(a), strcmp_to_coq(b))
        return a

    def block(self):
        self.eat("{")
        out = []
        while self.peek() != "}":
            out.append(self.stmt())
        self.eat("}")
        return seq(out)

    def stmt(self):
        tok = self.peek()
        if tok == "if":
            self.eat(); self.eat("("); c = self.cond(); self.eat(")")
            t = self.block()
            e = "SSkip"
            if self.peek() == "else":
                self.eat()
                e = self.stmt() if self.peek() == "if" else self.block()
            return ("IF", c, t, e)
        if tok == "free":
            self.eat(); self.eat("("); v = self.lvalue(); self.eat(")"); self.eat(";")
            return '(SFree "%s")' % v
        v = self.lvalue()
        op = self.eat()
        if op == "|=":
            f = self.eat(); self.eat(";"); return '(SOrFlag "%s" "%s")' % (v, f)
        if op == "=":
            e = self.expr(); self.eat(";"); return '(SAssign "%s" %s)' % (v, e)
        raise TranslateError("statement form not recognised at %s %s" % (v, op))


def coq_bytes(s):
    b = s.encode("latin-1").decode("unicode_escape").encode("latin-1")
    return "[" + "; ".join(str(x) for x in b) + "]%N"


def strcmp_to_coq(c):
    if isinstance(c, tuple) and c[0] == "STRCMP":
        return '(CStrEq "%s" %s)' % (c[1], coq_bytes(c[2]))
    return c


def stmt_to_coq(s):
    if isinstance(s, tuple) and s[0] == "IF":
        return "(SIf %s %s %s)" % (strcmp_to_coq(s[1]), stmt_to_coq(s[2]), stmt_to_coq(s[3]))
    if isinstance(s, tuple) and s[0] == "SEQ":
        return "(SSeq %s %s)" % (stmt_to_coq(s[1]), stmt_to_coq(s[2]))
    return s


def seq(stmts):
    if not stmts: return "SSkip"
    out = stmts[-1]
    for s in reversed(stmts[:-1]): out = ("SEQ", s, out)
    return out


def analyse_metadata(src):
    body = function_body(src, "process_metadata_stack")
    toks = tokenize(body)
    p = P(toks)
    # early return: if ((scratch->extensions & A) || (scratch->extensions & B)) { return; }
    p.eat("if"); p.eat("(")
    guard = []
    while True:
        p.eat("("); v = p.lvalue(); p.eat("&"); guard.append(p.eat()); p.eat(")")
        if v != "scratch->extensions": raise TranslateError("guard tests %s" % v)
        if p.peek() == "||": p.eat(); continue
        break
    p.eat(")"); p.eat("{"); p.eat("return"); p.eat(";"); p.eat("}")
    # declarations with optional initialisers
    pre = []
    while p.peek() in ("meta", "short", "char", "int", "size_t"):
        p.eat()
        while p.peek() == "*": p.eat()
        name = p.eat()
        if p.peek() == "=":
            p.eat(); e = p.expr(); pre.append('(SAssign "%s" %s)' % (name, e))
        p.eat(";")
    # the loop
    p.eat("for"); p.eat("(")
    depth = 1
    while depth:
        t = p.eat()
        if t == "(": depth += 1
        elif t == ")": depth -= 1
    p.eat("{")
    if [p.eat() for _ in range(3)] != ["m", "=", "stack_peek_index"]: raise TranslateError("loop does not start with m = stack_peek_index(...)")
    while p.eat() != ";": pass
    chain, default = [], "SSkip"
    if p.peek() != "if": raise TranslateError("loop body is not an if chain")
    while True:
        p.eat("if"); p.eat("(")
        c = p.cond(); p.eat(")")
        if not (isinstance(c, tuple) and c[0] == "STRCMP" and c[1] == "m->key"):
            raise TranslateError("chain condition is not strcmp(m->key, \"...\") == 0")
        blk = p.block()
        chain.append((c[2], blk))
        if p.peek() == "else":
            p.eat()
            if p.peek() == "if": continue
            default = p.block()
        break
    p.eat("}")
    post = []
    while p.peek() is not None:
        post.append(p.stmt())
    return guard, seq(pre), chain, default, seq(post)


def analyse_export(src):
    body = function_body(src, "mmd_engine_export_token_tree")
    m = re.search(r"switch\s*\(\s*scratch->output_format\s*\)\s*\{", body)
    if not m: raise TranslateError("switch (scratch->output_format) not found")
    depth, i = 1, m.end()
    while depth:
        if body[i] == "{": depth += 1
        elif body[i] == "}": depth -= 1
        i += 1
    sw = body[m.end():i - 1]
    cases, labels, items = [], [], []
    pos = 0
    stmt_re = re.compile(r"\s*(?:(case)\s+([A-Z_0-9]+)\s*:|(break)\s*;|if\s*\(\s*scratch->extensions\s*&\s*(EXT_[A-Z_]+)\s*\)\s*\{\s*([a-z_0-9]+)\s*\([^;{}]*\)\s*;\s*\}|([a-z_0-9]+)\s*\([^;{}]*\)\s*;|([a-z_>\-]+)\s*=\s*[^;{}]+;)")
    pending = []       # labels that fell through with statements
    while pos < len(sw):
        if not sw[pos:].strip(): break
        mm = stmt_re.match(sw, pos)
        if not mm: raise TranslateError("export switch: statement not recognised near %r" % sw[pos:pos + 60].strip())
        pos = mm.end()
        if mm.group(1):
            if items and labels:
                pending.append((labels, items)); labels, items = [], []     # fall through into the next label
            labels.append(mm.group(2))
        elif mm.group(3):
            for pl, pi in pending: cases.append((pl, pi + items))
            cases.append((labels, items)); pending, labels, items = [], [], []
        elif mm.group(4):
            items.append((mm.group(4), mm.group(5)))
        elif mm.group(6):
            items.append(("", mm.group(6)))
        else:
            items.append(("", "=" + mm.group(7)))
    return cases


def switch_readers():
    """functions of the library (main.c excluded) whose text mentions EXT_COMPLETE or EXT_SNIPPET"""
    out = []
    for f in sorted(os.listdir(common.SRC)):
        if not f.endswith(".c") or f == "main.c": continue
        src = strip_c_comments(common.read(os.path.join(common.SRC, f)))
        for m in re.finditer(r"\n[A-Za-z_][A-Za-z_0-9 \*]*\b([A-Za-z_0-9]+)\s*\([^;{}]*\)\s*\{", src):
            name = m.group(1)
            try:
                body = function_body(src[m.start():], name)
            except Exception:
                continue
            if re.search(r"\bEXT_(COMPLETE|SNIPPET)\b", body): out.append(name)
    return sorted(set(out))


def main():
    src = strip_c_comments(common.read(os.path.join(common.SRC, "writer.c")))
    guard, pre, chain, default, post = analyse_metadata(src)
    cases = analyse_export(src)
    readers = switch_readers()
    o = ["(* GENERATED by tools/tr_metakeys.py from /repo/src/writer.c -- do not edit *)",
         "From Coq Require Import List String ZArith NArith.", "Import ListNotations.", "From MMD.lib Require Import MiniC.", "Local Open Scope string_scope.", ""]
    o.append("Definition meta_guard_flags : list string := [%s]." % "; ".join('"%s"' % g for g in guard))
    o.append("Definition meta_pre : stmt := %s." % stmt_to_coq(pre))
    o.append("Definition meta_chain : list (list N * stmt) := [")
    o.append(";\n".join("  (%s (* %s *),\n   %s)" % (coq_bytes(k), k, stmt_to_coq(b)) for k, b in chain))
    o.append("].")
    o.append("Definition meta_default : stmt := %s." % stmt_to_coq(default))
    o.append("Definition meta_post : stmt := %s." % stmt_to_coq(post))
    o.append("Definition switch_readers : list string := [%s]." % "; ".join('"%s"' % r for r in readers))
    o.append("(* per output format: the calls made, each with the extension flag guarding it (\"\" = unconditional) *)")
    o.append("Definition export_cases : list (list string * list (string * string)) := [")
    o.append(";\n".join("  ([%s], [%s])" % ("; ".join('"%s"' % l for l in ls), "; ".join('("%s", "%s")' % it for it in items)) for ls, items in cases))
    o.append("].")
    common.write_if_changed(os.path.join(common.COQ, "gen", "MetaKeys.v"), "\n".join(o) + "\n")
    return dict(keys=[k for k, _ in chain], cases=len(cases), readers=readers)


if __name__ == "__main__":
    print(main())
