#!/usr/bin/env python3
"""T-gen translator: /repo/src/parser.c (lemon output, the file that is compiled) and the line-kind
assignments in /repo/src/mmd.c  ->  coq/gen/ParserTables.v.   Fails loudly on unexpected shapes."""
import json, os, re, sys
sys.path.insert(0, os.path.dirname(os.path.abspath(__file__)))
import common


class TranslateError(Exception):
    pass


def strip_comments(s):
    return re.sub(r"/\*.*?\*/", " ", s, flags=re.S)


def array(src, name):
    m = re.search(r"static const [A-Za-z_ ]+\b%s\[\]\s*=\s*\{(.*?)\};" % re.escape(name), src, re.S)
    if not m:
        raise TranslateError("table %s not found in parser.c" % name)
    body = strip_comments(m.group(1))
    vals = [v.strip() for v in body.split(",") if v.strip()]
    try:
        return [int(v) for v in vals]
    except ValueError:
        raise TranslateError("table %s has a non-integer entry" % name)


def define(src, name):
    m = re.search(r"^\s*#\s*define\s+%s\s+\(?(-?\d+)\)?\s*$" % re.escape(name), src, re.M)
    if not m:
        raise TranslateError("#define %s not found" % name)
    return int(m.group(1))


def parse_parser_c(path=None):
    path = path or os.path.join(common.SRC, "parser.c")
    src = common.read(path)
    t = {}
    for a in ("yy_action", "yy_lookahead", "yy_shift_ofst", "yy_reduce_ofst", "yy_default", "yyFallback"):
        t[a] = array(src, a)
    for d in ("YYNOCODE", "YYNSTATE", "YYNRULE", "YY_MAX_SHIFT", "YY_MIN_SHIFTREDUCE", "YY_MAX_SHIFTREDUCE",
              "YY_MIN_REDUCE", "YY_MAX_REDUCE", "YY_ERROR_ACTION", "YY_ACCEPT_ACTION", "YY_NO_ACTION",
              "YY_ACTTAB_COUNT", "YY_SHIFT_USE_DFLT", "YY_SHIFT_COUNT", "YY_REDUCE_USE_DFLT", "YY_REDUCE_COUNT"):
        t[d] = define(src, d)
    m = re.search(r"#ifndef YYSTACKDEPTH\s*#\s*define YYSTACKDEPTH (\d+)", src)
    if not m:
        raise TranslateError("YYSTACKDEPTH default not found")
    t["YYSTACKDEPTH"] = int(m.group(1))
    for flag in ("YYFALLBACK",):
        if not re.search(r"^\s*#\s*define\s+%s\b" % flag, src, re.M):
            raise TranslateError("%s not defined (driver shape changed)" % flag)
    for flag in ("YYERRORSYMBOL", "YYWILDCARD", "YYNOERRORRECOVERY"):
        if re.search(r"^\s*#\s*define\s+%s\b" % flag, src, re.M):
            raise TranslateError("%s defined: the Gallina driver in lib/Lemon.v does not model that configuration" % flag)
    m = re.search(r"\}\s*yyRuleInfo\[\]\s*=\s*\{(.*?)\};", src, re.S)
    if not m:
        raise TranslateError("yyRuleInfo not found")
    rules = re.findall(r"\{\s*(\d+)\s*,\s*(\d+)\s*\}", strip_comments(m.group(1)))
    t["rule_lhs"] = [int(a) for a, b in rules]
    t["rule_nrhs"] = [int(b) for a, b in rules]
    m = re.search(r"yyTokenName\[\]\s*=\s*\{(.*?)\};", src, re.S)
    t["names"] = re.findall(r'"([^"]*)"', m.group(1)) if m else []
    m = re.search(r"yyRuleName\[\]\s*=\s*\{(.*?)\};", src, re.S)
    t["rule_names"] = [r.strip() for r in re.findall(r'/\*\s*\d+\s*\*/\s*"([^"]*)"', m.group(1))] if m else []
    # sanity: shapes the driver model relies on
    if len(t["rule_lhs"]) != t["YYNRULE"]:
        raise TranslateError("yyRuleInfo has %d entries, YYNRULE=%d" % (len(t["rule_lhs"]), t["YYNRULE"]))
    if len(t["yy_action"]) != t["YY_ACTTAB_COUNT"] or len(t["yy_lookahead"]) != t["YY_ACTTAB_COUNT"]:
        raise TranslateError("action table size mismatch")
    # the driver checks the template text too: key statements of the template must be present
    for needle in ("if ( stateno >= YY_MIN_REDUCE )", "yyNewState += YY_MIN_REDUCE - YY_MIN_SHIFTREDUCE",
                   "if ( yypParser->yytos >= &yypParser->yystack[YYSTACKDEPTH] )",
                   "yyact = yy_find_reduce_action(yymsp[-yysize].stateno, (YYCODETYPE)yygoto);",
                   "} while ( yymajor != YYNOCODE && yypParser->yytos > yypParser->yystack );"):
        if needle not in src:
            raise TranslateError("lemon template statement not found: %r" % needle)
    return t


def line_kinds(t):
    """terminals that mmd.c can assign to a line token: every LINE_* constant occurring on the right-hand
    side of an assignment to ->type (or as the type argument of token_new*) in mmd.c, plus the
    LINE_ATX_1..6 range computed from HASH1..HASH6."""
    src = strip_comments(common.read(os.path.join(common.SRC, "mmd.c")))
    src = re.sub(r"//[^\n]*", "", src)
    kinds = set()
    for m in re.finditer(r"->\s*type\s*=\s*([^;]*);", src):
        rhs = m.group(1)
        for k in re.findall(r"\bLINE_[A-Z0-9_]+\b", rhs):
            kinds.add(k)
        if re.search(r"-\s*HASH1\s*\)\s*\+\s*LINE_ATX_1", rhs):
            kinds.update("LINE_ATX_%d" % i for i in range(1, 7))
    for m in re.finditer(r"token_new(?:_parent)?\s*\(([^;]*?)\)\s*;", src):
        for k in re.findall(r"\bLINE_[A-Z0-9_]+\b", m.group(1)):
            kinds.add(k)
    names = t["names"]
    unknown = [k for k in kinds if k not in names]
    if unknown:
        raise TranslateError("line kinds assigned in mmd.c that are not parser terminals: %s" % unknown)
    if len(kinds) < 20:
        raise TranslateError("suspiciously few line kinds extracted from mmd.c: %d" % len(kinds))
    return sorted(names.index(k) for k in kinds)


def zlist(vals):
    return "[" + "; ".join(str(v) if v >= 0 else "(%d)" % v for v in vals) + "]%Z"


def emit(t, kinds):
    o = ["(* GENERATED by tools/tr_lemon.py from /repo/src/parser.c and /repo/src/mmd.c -- do not edit *)",
         "From Coq Require Import List ZArith NArith.", "Import ListNotations.",
         "From MMD.lib Require Import Lemon.", ""]
    for a in ("yy_action", "yy_lookahead", "yy_shift_ofst", "yy_reduce_ofst", "yy_default", "yyFallback",
              "rule_lhs", "rule_nrhs"):
        o.append("Definition %s_l : list Z := %s." % (a, zlist(t[a])))
    o.append("")
    o.append("Definition parser_tables : tables := Eval vm_compute in mk_tables")
    o.append("  yy_action_l yy_lookahead_l yy_shift_ofst_l yy_reduce_ofst_l yy_default_l yyFallback_l rule_lhs_l rule_nrhs_l")
    o.append("  %s." % " ".join("(%d)%%Z" % t[d] for d in (
        "YYNOCODE", "YYNSTATE", "YYNRULE", "YY_MAX_SHIFT", "YY_MIN_SHIFTREDUCE", "YY_MAX_SHIFTREDUCE", "YY_MIN_REDUCE",
        "YY_MAX_REDUCE", "YY_ERROR_ACTION", "YY_ACCEPT_ACTION", "YY_ACTTAB_COUNT", "YY_SHIFT_COUNT", "YY_REDUCE_COUNT",
        "YYSTACKDEPTH")))
    o.append("")
    o.append("(* terminals the line classifier can assign (extracted from mmd.c) *)")
    o.append("Definition line_kinds : list Z := %s." % zlist(kinds))
    o.append("(* names, for reading: %s *)" % ", ".join("%d=%s" % (k, t["names"][k]) for k in kinds))
    o.append("")
    o.append("(* symbol numbers by name (terminals LINE_* and the nonterminal block), and the rule number of every 'block ::= X' *)")
    for i, n in enumerate(t["names"]):
        if n.startswith("LINE_"):
            o.append("Definition K_%s : Z := %d." % (n[5:], i))
    o.append("Definition NT_block : Z := %d." % t["names"].index("block"))
    for i, rn in enumerate(t.get("rule_names", [])):
        m = re.match(r"block ::= ([A-Za-z_0-9]+)$", rn.strip())
        if m:
            o.append("Definition R_block_%s : Z := %d." % (m.group(1), i))
    return "\n".join(o) + "\n"


def main():
    t = parse_parser_c()
    kinds = line_kinds(t)
    changed = common.write_if_changed(os.path.join(common.COQ, "gen", "ParserTables.v"), emit(t, kinds))
    os.makedirs(os.path.join(common.BUILD, "gen"), exist_ok=True)
    json.dump(dict(t, line_kinds=kinds), open(os.path.join(common.BUILD, "gen", "parser_tables.json"), "w"))
    return t, kinds, changed


if __name__ == "__main__":
    t, kinds, ch = main()
    print("ParserTables.v %s; %d line kinds: %s" % ("rewritten" if ch else "unchanged", len(kinds),
                                                      [t["names"][k] for k in kinds]))
