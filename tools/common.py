"""Shared infrastructure for the /verif checks: repo builds, Coq builds, extraction,
evidence, known findings, reporting.  See DESIGN.md section 2."""
import fcntl, hashlib, json, os, re, shutil, subprocess, sys, time
from concurrent.futures import ThreadPoolExecutor
from contextlib import contextmanager

VERIF = os.path.dirname(os.path.dirname(os.path.abspath(__file__)))
REPO = os.environ.get("VERIF_REPO", "/repo")
SRC = os.path.join(REPO, "src")
BUILD = os.path.join(VERIF, "build")
COQ = os.path.join(VERIF, "coq")
GUARD = "MMD6_VERIF"
NCPU = os.cpu_count() or 4

LIB_SOURCES = """aho-corasick beamer char critic_markup d_string epub file html itmz itmz-lexer
itmz-parser itmz-reader latex lexer memoir miniz mmd object_pool opendocument
opendocument-content opml opml-lexer opml-parser opml-reader parser rng scanners stack
textbundle token token_pairs transclude uuid xml writer zip""".split()
CLI_SOURCES = ["main", "argtable3"]

SAN = ["-fsanitize=address,undefined", "-fno-sanitize-recover=all", "-fno-omit-frame-pointer"]
VARIANTS = {
    # name: (cc, cflags, ldflags)
    "asan": ("gcc", ["-O1", "-g"] + SAN, SAN),
    "asan-nopool": ("gcc", ["-O1", "-g", "-DDISABLE_OBJECT_POOL"] + SAN, SAN),
    # parser with tracing (no NDEBUG) is the default in all variants: CMake's
    # Release adds -DNDEBUG, but we never need that.
    # as shipped (CMake Release: -O2/-O3 -DNDEBUG), one section per function / object
    "o2": ("gcc", ["-O2", "-g0", "-DNDEBUG", "-ffunction-sections", "-fdata-sections"], []),
    "o2-nopool": ("gcc", ["-O2", "-g0", "-DNDEBUG", "-ffunction-sections", "-fdata-sections",
                          "-DDISABLE_OBJECT_POOL"], []),
    "o0-su": ("gcc", ["-O0", "-g0", "-fstack-usage", "-ffunction-sections", "-fdata-sections"], []),
    "tsan-nopool": ("gcc", ["-O1", "-g", "-DDISABLE_OBJECT_POOL", "-fsanitize=thread"],
                    ["-fsanitize=thread"]),
    "plain": ("gcc", ["-O1", "-g"], []),
    # one callback per executed basic block (harness/cost.c counts them): the cost measure of C07
    # (-fno-builtin: string and memory functions stay calls into libc, which the harness wraps to count the bytes they handle)
    "cov": ("gcc", ["-O1", "-g0", "-fsanitize-coverage=trace-pc", "-fno-builtin"], []),
}
RUN_ENV = dict(os.environ, ASAN_OPTIONS="detect_leaks=0:abort_on_error=0:allocator_may_return_null=1",
               UBSAN_OPTIONS="print_stacktrace=1:halt_on_error=1")


def log(*a):
    print(*a, file=sys.stderr, flush=True)


@contextmanager
def flock(name):
    os.makedirs(BUILD, exist_ok=True)
    f = open(os.path.join(BUILD, ".lock." + name), "w")
    fcntl.flock(f, fcntl.LOCK_EX)
    try:
        yield
    finally:
        fcntl.flock(f, fcntl.LOCK_UN)
        f.close()


def sha(*parts):
    h = hashlib.sha256()
    for p in parts:
        h.update(p if isinstance(p, bytes) else p.encode())
        h.update(b"\0")
    return h.hexdigest()


def read(path, mode="r"):
    with open(path, mode) as f:
        return f.read()


def write_if_changed(path, content):
    os.makedirs(os.path.dirname(path), exist_ok=True)
    mode = "rb" if isinstance(content, bytes) else "r"
    if os.path.exists(path) and read(path, mode) == content:
        return False
    with open(path, "wb" if isinstance(content, bytes) else "w") as f:
        f.write(content)
    return True


# ---------------------------------------------------------------- repo build
def _version_h():
    cm = read(os.path.join(REPO, "CMakeLists.txt"))
    g = lambda k: re.search(r"set \(My_Project_Version_%s (\d+)\)" % k, cm).group(1)
    try:
        ver = "%s.%s.%s" % (g("Major"), g("Minor"), g("Patch"))
    except AttributeError:
        ver = "0.0.0"
    return ('#ifndef FILE_LIBMULTIMARKDOWN_H\n#define FILE_LIBMULTIMARKDOWN_H\n'
            '#define LIBMULTIMARKDOWN_NAME "MultiMarkdown"\n#define LIBMULTIMARKDOWN_VERSION "%s"\n'
            '#define LIBMULTIMARKDOWN_COPYRIGHT "Copyright"\n#define LIBMULTIMARKDOWN_LICENSE "License"\n'
            '#endif\n' % ver)


def _headers_hash():
    hs = sorted(f for f in os.listdir(SRC) if f.endswith(".h"))
    return sha(*[read(os.path.join(SRC, h), "rb") for h in hs])


def build_variant(variant, extra_defs=()):
    """Compile /repo/src (working tree) into build/<variant>/{obj/*.o, libmmd.a, multimarkdown}.
    Returns the variant directory.  Objects are cached by content hash."""
    cc, cflags, ldflags = VARIANTS[variant]
    vdir = os.path.join(BUILD, variant)
    odir = os.path.join(vdir, "obj")
    with flock("build." + variant):
        os.makedirs(odir, exist_ok=True)
        write_if_changed(os.path.join(vdir, "inc", "version.h"), _version_h())
        hh = _headers_hash()
        base = ["-std=gnu99", "-w", "-D" + GUARD, "-I", SRC, "-I", os.path.join(vdir, "inc")] + list(extra_defs)
        jobs = []
        for s in LIB_SOURCES + CLI_SOURCES:
            src = os.path.join(SRC, s + ".c")
            if not os.path.exists(src):
                raise RuntimeError("source file missing: " + src)
            fl = cflags + base
            if s == "miniz" and "-fsanitize=address,undefined" in cflags:
                fl = fl + ["-fno-sanitize=alignment,nonnull-attribute"]   # third-party miniz: unaligned loads, memcpy(.., NULL, 0)
            key = sha(read(src, "rb"), hh, " ".join([cc] + fl))
            obj = os.path.join(odir, s + ".o")
            stamp = obj + ".key"
            if os.path.exists(obj) and os.path.exists(stamp) and read(stamp) == key:
                continue
            jobs.append((s, [cc] + fl + ["-c", src, "-o", obj], stamp, key))
        def run(j):
            s, cmd, stamp, key = j
            r = subprocess.run(cmd, capture_output=True, text=True, cwd=odir)
            if r.returncode != 0:
                return s, r.stderr
            with open(stamp, "w") as f:
                f.write(key)
            return s, None
        if jobs:
            t0 = time.time()
            with ThreadPoolExecutor(NCPU) as ex:
                res = list(ex.map(run, jobs))
            errs = [(s, e) for s, e in res if e]
            if errs:
                raise RuntimeError("compile failed (%s): %s" % (variant, errs[0][1][:2000]))
            log("[build %s] compiled %d objects in %.1fs" % (variant, len(jobs), time.time() - t0))
        lib = os.path.join(vdir, "libmmd.a")
        if jobs or not os.path.exists(lib):
            if os.path.exists(lib):
                os.unlink(lib)
            subprocess.run(["ar", "rcs", lib] + [os.path.join(odir, s + ".o") for s in LIB_SOURCES], check=True)
        cli = os.path.join(vdir, "multimarkdown")
        if (jobs or not os.path.exists(cli)) and variant != "cov":     # (the cov objects need the counting callback of harness/cost.c)
            subprocess.run([cc] + ldflags + [os.path.join(odir, s + ".o") for s in CLI_SOURCES]
                           + [lib, "-lm", "-o", cli], check=True)
    return vdir


def build_harness(variant, name, extra_src=(), extra_flags=()):
    """Compile harness/<name>.c against build/<variant>/libmmd.a -> build/<variant>/h_<name>."""
    cc, cflags, ldflags = VARIANTS[variant]
    vdir = build_variant(variant)
    src = os.path.join(VERIF, "harness", name + ".c")
    out = os.path.join(vdir, "h_" + name)
    with flock("harness.%s.%s" % (variant, name)):
        lib = os.path.join(vdir, "libmmd.a")
        key = sha(read(src, "rb"), read(os.path.join(VERIF, "harness", "hcommon.h"), "rb"),
                  str(os.path.getmtime(lib)), " ".join(cflags + list(extra_flags)))
        stamp = out + ".key"
        if os.path.exists(out) and os.path.exists(stamp) and read(stamp) == key:
            return out
        cmd = [cc, "-std=gnu99", "-w", "-D" + GUARD] + cflags + list(extra_flags) + ["-I", SRC, "-I", os.path.join(vdir, "inc"),
               "-I", os.path.join(VERIF, "harness"), src] + list(extra_src) + [lib, "-lm", "-lpthread"] + ldflags + ["-o", out]
        r = subprocess.run(cmd, capture_output=True, text=True)
        if r.returncode != 0:
            raise RuntimeError("harness build failed: " + r.stderr[:3000])
        with open(stamp, "w") as f:
            f.write(key)
    return out


COST_WRAP = ["-Wl," + ",".join("--wrap=" + f for f in ("strlen", "strcat", "strncat", "strcpy", "strncpy", "memcpy", "memmove", "memset", "strcmp", "strncmp",
                                                            "memcmp", "strstr", "strchr", "strrchr", "strdup", "vsnprintf"))]


# ---------------------------------------------------------------- coq
def coq_makefile():
    mk = os.path.join(COQ, "Makefile")
    proj = os.path.join(COQ, "_CoqProject")
    files = []
    for d in ("lib", "gen", "model", "proofs", "props", "extract"):
        dd = os.path.join(COQ, d)
        if os.path.isdir(dd):
            files += sorted(os.path.join(d, f) for f in os.listdir(dd) if f.endswith(".v"))
    content = "-Q lib MMD.lib\n-Q gen MMD.gen\n-Q model MMD.model\n-Q proofs MMD.proofs\n-Q props MMD.props\n-Q extract MMD.extract\n-arg -w -arg -all\n" + "\n".join(files) + "\n"
    changed = write_if_changed(proj, content)
    if changed or not os.path.exists(mk):
        subprocess.run(["coq_makefile", "-f", "_CoqProject", "-o", "Makefile"], cwd=COQ, check=True,
                       capture_output=True)


def coq_make(targets, timeout=1500, keep_going=True):
    """Full .vo build of the given targets (paths relative to coq/).  Returns (ok, output)."""
    with flock("coq"):
        coq_makefile()
        cmd = ["timeout", str(timeout), "make", "-j%d" % NCPU] + (["-k"] if keep_going else []) + list(targets)
        r = subprocess.run(cmd, cwd=COQ, capture_output=True, text=True)
        return r.returncode == 0, r.stdout + r.stderr


TRANSLATORS = ["tr_lemon", "tr_writers", "tr_enums", "tr_escapers", "tr_wrappers", "tr_globals", "tr_engine", "tr_callgraph",
               "tr_metakeys", "tr_packages", "tr_bounds"]


def refresh_gen(skip=()):
    """Regenerate every gen/*.v from the current /repo tree.  A property file (or the extraction) may depend on generated
    files that belong to another property's translator; whatever an earlier run left there (possibly from a different
    tree) must not decide this run.  A translator that does not recognise the sources any more is reported by the check
    that owns it; here its file is only left as it is."""
    import importlib
    for name in TRANSLATORS:
        if name in skip:
            continue
        try:
            importlib.import_module(name).main()
        except Exception as e:
            log("[gen] %s: %s" % (name, str(e)[:200]))


def coq_prove(prop_file):
    """Build props/<prop_file>.vo; parse theorem names and Print Assumptions output.
    Returns dict(ok, theorems=[names], failed=[names or file-level], assumptions={thm: text}, output)."""
    vfile = os.path.join(COQ, "props", prop_file + ".v")
    text = read(vfile)
    thms = re.findall(r"^(?:Theorem|Corollary)\s+([A-Za-z0-9_']+)", text, re.M)
    vo = os.path.join(COQ, "props", prop_file + ".vo")
    # force re-check output of Print Assumptions: remove the .vo so the messages are printed
    if os.path.exists(vo):
        os.unlink(vo)
    ok, out = coq_make(["props/%s.vo" % prop_file])
    assumptions = {}
    asked = re.findall(r"^\s*Print Assumptions\s+([A-Za-z0-9_']+)", text, re.M)
    blocks, cur = [], None
    for line in out.split("\n"):
        if line.startswith("Closed under the global context"):
            if cur is not None:
                blocks.append(cur)
            blocks.append(line); cur = None
        elif line.startswith("Axioms:"):
            if cur is not None:
                blocks.append(cur)
            cur = line
        elif re.match(r"COQC|COQDEP|make|File ", line):
            if cur is not None:
                blocks.append(cur)
            cur = None
        elif cur is not None:
            cur += " " + line
    if cur is not None:
        blocks.append(cur)
    for name, b in zip(asked, blocks):
        assumptions[name] = " ".join(b.split())[:800]
    failed = []
    if not ok:
        # find which file / line failed
        m = re.search(r'File "\./?([^"]+)", line (\d+)', out)
        where = "%s:%s" % (m.group(1), m.group(2)) if m else "unknown"
        failed.append(where)
    return dict(ok=ok, theorems=thms, failed=failed, assumptions=assumptions, output=out)


def extract_driver():
    """Build extract/Extract.v -> build/ocaml/{mmdmodel.ml,mli} and the native driver. Returns path."""
    odir = os.path.join(BUILD, "ocaml")
    os.makedirs(odir, exist_ok=True)
    ok, out = coq_make(["extract/Extract.vo"], keep_going=False)
    if not ok:
        raise RuntimeError("extraction build failed:\n" + out[-3000:])
    with flock("ocaml"):
        ml = os.path.join(COQ, "mmdmodel.ml")
        mli = os.path.join(COQ, "mmdmodel.mli")
        drv = os.path.join(VERIF, "ocaml", "driver.ml")
        key = sha(read(ml, "rb"), read(mli, "rb"), read(drv, "rb"))
        exe = os.path.join(odir, "driver")
        stamp = exe + ".key"
        if os.path.exists(exe) and os.path.exists(stamp) and read(stamp) == key:
            return exe
        for f in (ml, mli, drv):
            shutil.copy(f, odir)
        r = subprocess.run(["ocamlfind", "ocamlopt", "-O3", "-w", "-a", "-package", "str", "-linkpkg",
                            "mmdmodel.mli", "mmdmodel.ml", "driver.ml", "-o", "driver"],
                           cwd=odir, capture_output=True, text=True)
        if r.returncode != 0:
            r = subprocess.run(["ocamlfind", "ocamlopt", "-w", "-a", "-package", "str", "-linkpkg",
                                "mmdmodel.mli", "mmdmodel.ml", "driver.ml", "-o", "driver"],
                               cwd=odir, capture_output=True, text=True)
        if r.returncode != 0:
            raise RuntimeError("ocaml build failed: " + r.stderr[:3000])
        with open(stamp, "w") as f:
            f.write(key)
    return exe


# ---------------------------------------------------------------- reporting
class Report:
    def __init__(self, pid, tier, seed, level="proof"):
        self.pid, self.tier, self.seed, self.level = pid, tier, seed, level
        self.t0 = time.time()
        self.cov = dict(obligations=0, discharged=0, checker_cmd="", trusted_base=[],
                        evaluations=0, distinct_nontrivial=0, rule="", samples=[])
        self.assumptions = []
        self.violations = []      # (key, what, replay_dict)
        self.known_hits = []
        kf = json.load(open(os.path.join(VERIF, "known_findings.json")))
        self.known = [e for e in kf["findings"] if e["property"] == pid and e["status"] == "known"]

    def add_obligations(self, res, prop_file):
        n = len(res["theorems"])
        self.cov["obligations"] += n
        self.cov["discharged"] += n if res["ok"] else 0
        self.cov["checker_cmd"] = "coq_makefile -f _CoqProject; make props/%s.vo (coqc 8.16.1, full .vo build)" % prop_file
        self.cov.setdefault("theorems", []).extend(res["theorems"])
        self.cov.setdefault("print_assumptions", {}).update(res["assumptions"])

    def violation(self, key, what, replay):
        for e in self.known:
            if e["key"] == key:
                if key not in self.known_hits:
                    self.known_hits.append(key)
                    print("KNOWN-FINDING: property=%s %s" % (self.pid, e["what"]), flush=True)
                return False
        self.violations.append((key, what, replay))
        return True

    def finish(self):
        os.makedirs(os.path.join(VERIF, "evidence"), exist_ok=True)
        rc = 0
        for i, (key, what, replay) in enumerate(self.violations):
            rdir = os.path.join(VERIF, "replays", self.pid)
            os.makedirs(rdir, exist_ok=True)
            path = os.path.join(rdir, "%s_%d.json" % (re.sub(r"[^A-Za-z0-9_.-]", "_", key)[:60], i))
            replay = dict(replay, property=self.pid, key=key, what=what)
            with open(path, "w") as f:
                json.dump(replay, f, indent=1)
            tail = " no-failing-input-found" if replay.get("no_failing_input") else ""
            print("VIOLATION property=%s replay=%s%s" % (self.pid, path, tail), flush=True)
            log("  -> " + what[:400])
            rc = 1
        ev = dict(property_id=self.pid, tier=self.tier, seed=self.seed, level=self.level,
                  coverage=self.cov, assumptions=self.assumptions,
                  wall_s=round(time.time() - self.t0, 2), violations=len(self.violations))
        ev["coverage"]["samples"] = ev["coverage"]["samples"][:8]
        ev["coverage"]["known_findings_hit"] = self.known_hits
        with open(os.path.join(VERIF, "evidence", self.pid + ".json"), "w") as f:
            json.dump(ev, f, indent=1, default=str)
        log("[%s] %s tier=%s obligations=%d/%d evaluations=%d wall=%.1fs" % (
            self.pid, "FAIL" if rc else "ok", self.tier, self.cov["discharged"], self.cov["obligations"],
            self.cov["evaluations"], ev["wall_s"]))
        return rc


def run(cmd, inp=None, timeout=600, env=None, cwd=None):
    r = subprocess.run(cmd, input=inp, capture_output=True, timeout=timeout, env=env or RUN_ENV, cwd=cwd)
    return r.returncode, r.stdout, r.stderr


def hexs(b):
    return b.hex() if b else "-"


def run_lines(exe, lines, timeout=120, env=None, args=()):
    """Feed case lines to a line-oriented harness; survive crashes/timeouts of single cases.
    Returns a list (same length as lines) of output lines or 'CRASH rc=.. <stderr summary>'."""
    out = [None] * len(lines)
    i = 0
    while i < len(lines):
        data = ("\n".join(lines[i:]) + "\n").encode()
        try:
            # (the budget is for one case; a batch gets a proportional allowance on top, so that a long batch of
            #  quick cases is not cut short and the case in progress blamed for it)
            r = subprocess.run([exe] + list(args), input=data, capture_output=True, timeout=timeout + 0.25 * (len(lines) - i), env=env or RUN_ENV)
            got = r.stdout.decode("latin-1").split("\n")
            if got and got[-1] == "":
                got.pop()
            rc, err = r.returncode, r.stderr.decode("latin-1")
        except subprocess.TimeoutExpired as e:
            got = (e.stdout or b"").decode("latin-1").split("\n")
            if got and not (e.stdout or b"").endswith(b"\n"):
                got.pop()
            got = [g for g in got]
            rc, err = "timeout", ""
        n = min(len(got), len(lines) - i)
        if rc == 0 and n == len(lines) - i:
            out[i:] = got[:n]
            break
        # complete lines before the failing case are good
        good = n if rc == 0 else max(0, n - (0 if rc != "timeout" else 0))
        # a crashed case may have printed a partial line; the harness prints "\n" only at the end of a case
        if rc != 0 and n > 0 and len(got) > 0 and good == len(lines) - i:
            good -= 1
        out[i:i + good] = got[:good]
        m = re.search(r"(ERROR: AddressSanitizer: [^\n]*|runtime error: [^\n]*|SUMMARY: [^\n]*)", err)
        out[i + good] = "CRASH rc=%s %s" % (rc, m.group(1)[:200] if m else err[-200:].replace("\n", " "))
        i = i + good + 1
    return out


def ddmin(items, test):
    """Delta debugging: minimal sublist of items for which test(sublist) is True."""
    n = 2
    while len(items) >= 2:
        chunk = max(1, len(items) // n)
        subsets = [items[i:i + chunk] for i in range(0, len(items), chunk)]
        reduced = False
        for i in range(len(subsets)):
            comp = [x for j, s in enumerate(subsets) if j != i for x in s]
            if comp and test(comp):
                items, n, reduced = comp, max(n - 1, 2), True
                break
        if not reduced:
            if n >= len(items):
                break
            n = min(len(items), n * 2)
    return items


def run_lines_par(exe, lines, jobs=None, **kw):
    """run_lines over several processes (order preserved)."""
    jobs = jobs or NCPU
    if len(lines) < 4 * jobs:
        return run_lines(exe, lines, **kw)
    size = (len(lines) + jobs - 1) // jobs
    chunks = [lines[i:i + size] for i in range(0, len(lines), size)]
    with ThreadPoolExecutor(jobs) as ex:
        res = list(ex.map(lambda c: run_lines(exe, c, **kw), chunks))
    return [x for r in res for x in r]
