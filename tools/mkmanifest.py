#!/usr/bin/env python3
"""Regenerates MANIFEST.json from the table below (kept in one place so it stays valid)."""
import json, os
V = os.path.dirname(os.path.dirname(os.path.abspath(__file__)))
ALL = ["C%02d" % i for i in range(1, 21)]
# pid -> (category, text, note, technique)
CLAIMED = {
 "C19": ("proof",
  "Coq theorems over a statement-level Gallina model of d_string.c (raw buffer, size_t wrap-around, bounds-checked libc primitives): refinement to the ideal string, invariant over all histories, no out-of-bounds access, termination of replace; the model is tied to the code by differential execution (extracted model vs d_string.c under ASan/UBSan) on boundary-value operation sequences.",
  "Trusted: Coq kernel, extraction, harness/dstring.c, libc primitives as modelled, realloc succeeds, NUL-free payloads.",
  "Coq proof (refinement + invariant induction) over hand model, tied by extracted-model-vs-implementation correspondence"),
 "C18": ("proof",
  "Coq theorems over a Gallina state machine transcribed from token.c/object_pool.c (pool pointer, use count, slab stack, bump pointer and one-past-the-end sentinel, malloc/free as a fresh-block oracle): every well-bracketed history runs without NULL dereference, every allocation is fresh and inside a live slab, no slab is freed while the count is positive, everything is released when the count returns to zero, and any clean state behaves like the initial one. Tied to the code through hook H1 and a harness that runs histories (all well-bracketed ones up to a length bound, random ones beyond, allocation batches around the 1024-object slab boundary, real conversions) under ASan and compares the observable pool state after every call with the extracted model.",
  "Trusted: Coq kernel, extraction, harness/pool.c + hook H1, malloc succeeds and returns fresh blocks; stack.c (slab stack growth) and the C short counter wrap are not modelled; that conversion output does not depend on token addresses is tested (output hash vs fresh process), not proved.",
  "Coq proof (invariant induction over histories + two-state simulation) over hand model, tied by extracted-model-vs-implementation correspondence"),
 "C02": ("proof",
  "(a) Coq theorem, by reflection over tables regenerated from parser.c on every run: the lemon block parser, run as mmd_parse_token_chain runs it, accepts EVERY non-empty sequence of the 36 line kinds the classifier can assign - no syntax error, parse failure, stack overflow or table overrun, exactly one shift per line, stack height <= 11 < 100 (1039 reachable stacks, closure checked by vm_compute, lifted to all sequences by induction). The hand-transcribed driver is tied to parser.c by comparing its Shift/Reduce/Accept trace with ParseTrace output (hook H3 brackets nested parses) on thousands of distinct line-kind sequences; the same runs check that every kind the real parser receives is in the extracted set. (b) partial: a syntactic, regenerated may-analysis proves that every token type non-writer code can create has a case in each writer whose default is an escape (or is on a justified allow-list); all writers x {MMD, compat} are run on line-kind sequences and marker soup in forked children (testing).",
  "Trusted: Coq kernel + vm_compute; tools/tr_lemon.py, tools/tr_writers.py (incl. its allow-list); lib/Lemon.v transcription (validated by trace correspondence); grammar actions and writer bodies are not modelled - writer behaviour is tested, not proved.",
  "Coq proof by reflection (finite-state closure + induction) over tables regenerated from parser.c; trace correspondence for the driver; syntactic coverage obligation + runs for writers"),
}
NOT_YET = "no check built yet in this commit (work proceeds in the order of DESIGN.md section 9); not claimed"
HOOK_COMMITS = ["f9ed9e1", "865fa70"]

def main():
    checks = []
    for pid in ALL:
        if pid in CLAIMED:
            cat, text, note, tech = CLAIMED[pid]
            checks.append(dict(property_id=pid, quick_cmd="python3 check.py %s --tier quick" % pid,
                               thorough_cmd="python3 check.py %s --tier thorough" % pid,
                               evidence_file="evidence/%s.json" % pid,
                               replay_cmd_template="python3 check.py %s --replay {path}" % pid,
                               level_claimed=dict(category=cat, text=text, design_ref="DESIGN.md section 4, " + pid),
                               level_note=note, technique=tech))
    m = dict(version=1, setup_cmd="python3 tools/setup.py",
             hooks=dict(guard="MMD6_VERIF",
                        enable="tools/common.py compiles /repo/src/*.c itself with -DMMD6_VERIF into /verif/build/<variant>/ (never touches /repo/_build)",
                        baseline_off_cmd="cmake --build /repo/_build && ctest --test-dir /repo/_build -j8 --timeout 900",
                        source_commits=HOOK_COMMITS, add_only=True),
             checks=checks,
             not_applicable=[dict(property_id=p, reason=NOT_YET) for p in ALL if p not in CLAIMED])
    json.dump(m, open(os.path.join(V, "MANIFEST.json"), "w"), indent=1)

if __name__ == "__main__":
    main()
