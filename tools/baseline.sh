#!/bin/bash
# Runs the repository's own test suite (guard off, /repo/_build) and prints every failing test; exit 0 iff only the two
# pathologic tests (which fail on the pinned snapshot too) fail.
cmake --build /repo/_build >/dev/null 2>&1 || { echo "BASELINE: build failed"; exit 2; }
out=$(ctest --test-dir /repo/_build -j8 --timeout 900 2>&1)
echo "$out" | grep -E "tests passed|\(Failed\)|Passed|Failed" 
bad=$(echo "$out" | grep -E "^\s+[0-9]+ - .*\((Failed|Timeout|SEGFAULT)" | grep -v pathologic | wc -l)
cases=$(grep -hoE "^[0-9]+ passed; [0-9]+ failed" /repo/_build/Testing/Temporary/LastTest.log | awk '{p+=$1; f+=$3} END {print p" passed; "f" failed"}')
echo "BASELINE: per-file cases: $cases; non-pathologic suite failures: $bad"
[ "$bad" -eq 0 ]
