#!/usr/bin/env python3
"""T-gen translator for C07 (stack part): call graph of the library from the -O0 objects (no
inlining, no tail calls: one node per source function), frame sizes from gcc -fstack-usage, the
functions that carry a recursion-depth guard (source pattern), and the hints the Coq checker
needs (SCC numbering, potentials, bounds)  ->  coq/gen/CallGraph.v"""
import glob, os, re, sys, collections
sys.path.insert(0, os.path.dirname(os.path.abspath(__file__)))
import common, tr_globals
from tr_lemon import TranslateError, strip_comments

K_FRAMES = 1001          # a guard "if (depth == kMax...) return" admits kMax+1 live frames; all three limits are 1000


def guards():
    """function name -> guard constant, for functions whose body tests a depth counter against kMax*RecursiveDepth and returns"""
    out = {}
    for fn in sorted(os.listdir(common.SRC)):
        if not fn.endswith(".c"):
            continue
        src = re.sub(r"//[^\n]*", "", strip_comments(common.read(os.path.join(common.SRC, fn))))
        for fm in re.finditer(r"\n([A-Za-z_][A-Za-z_0-9 \*]*?)\b([A-Za-z_0-9]+)\s*\(([^;{}]*)\)\s*\{(.*?)\n\}", src, re.S):
            name, body = fm.group(2), fm.group(4)
            m = re.search(r"if\s*\(\s*[A-Za-z_>\-\.]*depth\s*==\s*(kMax[A-Za-z]*RecursiveDepth)\s*\)\s*\{.{0,400}?\breturn\b", body, re.S)
            if m:
                out[name] = m.group(1)
    return out


def main():
    g = tr_globals.analyse("o0-su")
    vdir = os.path.join(common.BUILD, "o0-su")
    sec = g["sections"]
    funcs = set(n for n in sec if tr_globals.sec_class(sec[n]) == "text")
    # reachable functions only
    seen, work = set(g["roots"]), list(g["roots"])
    E = {k: [x for x in v if x in funcs] for k, v in g["edges"].items() if k in funcs}
    while work:
        n = work.pop()
        for m in E.get(n, ()):
            if m not in seen:
                seen.add(m); work.append(m)
    nodes = sorted(seen)
    su = {}
    for f in glob.glob(os.path.join(vdir, "obj", "*.su")):
        obj = os.path.basename(f)[:-3]
        for l in open(f):
            p = l.rstrip("\n").split("\t")
            name = p[0].split(":")[-1]
            key = name if name in funcs else "%s:%s" % (obj, name)
            su[key] = max(su.get(key, 0), int(p[1]))
    missing = [n for n in nodes if n not in su]
    if len(missing) > 5:
        raise TranslateError("no stack-usage figure for %d functions, e.g. %s" % (len(missing), missing[:5]))
    gd = guards()
    if len(gd) < 5:
        raise TranslateError("only %d depth guards recognised" % len(gd))
    guarded = set(n for n in nodes if n.split(":")[-1] in gd)
    # U: functions on a cycle that avoids every guarded function
    def sccs(ns, succ):
        idx, low, st, on, res, c = {}, {}, [], set(), [], [0]
        sys.setrecursionlimit(100000)
        def sc(v):
            idx[v] = low[v] = c[0]; c[0] += 1; st.append(v); on.add(v)
            for x in succ(v):
                if x not in idx:
                    sc(x); low[v] = min(low[v], low[x])
                elif x in on:
                    low[v] = min(low[v], idx[x])
            if low[v] == idx[v]:
                comp = []
                while True:
                    x = st.pop(); on.discard(x); comp.append(x)
                    if x == v: break
                res.append(comp)
        for v in ns:
            if v not in idx: sc(v)
        return res          # reverse topological order: callees first
    ng = [n for n in nodes if n not in guarded]
    ngs = set(ng)
    U = set()
    for comp in sccs(ng, lambda v: [x for x in E.get(v, ()) if x in ngs]):
        if len(comp) > 1 or comp[0] in E.get(comp[0], ()):
            U.update(comp)
    keep = [n for n in nodes if n not in U]
    ks = set(keep)
    comps = sccs(keep, lambda v: [x for x in E.get(v, ()) if x in ks])     # callees first => scc number increases towards callers
    scc_of = {}
    for i, comp in enumerate(comps):
        for v in comp: scc_of[v] = i
    w = {n: su.get(n, 0) for n in keep}
    # potentials inside each SCC (unguarded part is acyclic)
    h = {}
    def pot(v):
        if v in h: return h[v]
        best = 0
        for x in E.get(v, ()):
            if x in ks and x not in guarded and scc_of[x] == scc_of[v] and x != v:
                best = max(best, pot(x))
        h[v] = w[v] + best
        return h[v]
    for v in keep:
        if v not in guarded: pot(v)
    nscc = len(comps)
    Hmax = [max([h[v] for v in comp if v not in guarded] + [0]) for comp in comps]
    Wg = [max([w[v] for v in comp if v in guarded] + [0]) for comp in comps]
    Mc = [K_FRAMES * sum(1 for v in comp if v in guarded) for comp in comps]
    bound = [Hmax[i] + Mc[i] * (Wg[i] + Hmax[i]) for i in range(nscc)]
    B = [0] * nscc
    for i in range(nscc):                                   # callees first
        below = 0
        for v in comps[i]:
            for x in E.get(v, ()):
                if x in ks and scc_of[x] != i:
                    below = max(below, B[scc_of[x]])
        B[i] = bound[i] + below
    ids = {n: i for i, n in enumerate(keep)}
    edges = sorted(set((ids[u], ids[v]) for u in keep for v in E.get(u, ()) if v in ks))
    def nl(xs): return "[" + "; ".join(str(x) for x in xs) + "]"
    o = ["(* GENERATED by tools/tr_callgraph.py from the -O0 -fstack-usage objects and the sources of /repo -- do not edit *)",
         "From Coq Require Import List NArith String.", "Import ListNotations.", "Local Open Scope N_scope.", ""]
    o.append("Definition cg_nnodes : nat := %d." % len(keep))
    o.append("Definition cg_w : list N := %s." % nl(w[n] for n in keep))
    o.append("Definition cg_h : list N := %s." % nl(h.get(n, 0) for n in keep))
    o.append("Definition cg_scc : list nat := %s%%nat." % nl(scc_of[n] for n in keep))
    o.append("Definition cg_guarded : list bool := %s." % nl("true" if n in guarded else "false" for n in keep))
    o.append("Definition cg_Hmax : list N := %s." % nl(Hmax))
    o.append("Definition cg_Wg : list N := %s." % nl(Wg))
    o.append("Definition cg_M : list N := %s." % nl(Mc))
    o.append("Definition cg_B : list N := %s." % nl(B))
    o.append("Definition cg_edges : list (nat * nat) := [%s]%%nat." % "; ".join("(%d, %d)" % e for e in edges))
    o.append("Definition cg_Bmax : N := %d." % max(B))
    o.append("Definition cg_entry_nodes : list nat := %s%%nat." % nl(ids[r] for r in g["roots"] if r in ids))
    o.append("Open Scope string_scope.")
    o.append("Definition cg_unguarded_recursive : list string := [%s]." % "; ".join('"%s"' % n for n in sorted(U)))
    o.append("Definition cg_guarded_names : list string := [%s]." % "; ".join('"%s"' % n for n in sorted(guarded)))
    o.append("(* nodes: %s *)" % " ".join("%d=%s" % (i, n) for i, n in enumerate(keep)))
    ch = common.write_if_changed(os.path.join(common.COQ, "gen", "CallGraph.v"), "\n".join(o) + "\n")
    return dict(nodes=keep, U=sorted(U), guarded=sorted(guarded), Bmax=max(B), B=B, comps=comps, bound=bound), ch


if __name__ == "__main__":
    r, ch = main()
    print(len(r["nodes"]), "functions; guarded:", r["guarded"])
    print("unguarded recursive:", r["U"])
    print("Bmax", r["Bmax"], "bytes")
    big = sorted(range(len(r["comps"])), key=lambda i: -r["bound"][i])[:6]
    for i in big: print(r["bound"][i], r["comps"][i][:6])
