#!/bin/bash
# runs every check at the given tier on the current /repo tree; prints one line per property
tier=${1:-quick}
cd "$(dirname "$0")/.."
rc=0
for i in $(seq -w 1 20); do
  out=$(timeout 7200 python3 check.py C$i --tier $tier 2>&1); r=$?
  echo "$out" | grep "^\[C$i\]\|^VIOLATION" | tr '\n' ' '; echo " rc=$r"
  [ $r -ne 0 ] && rc=1
done
exit $rc
