#!/bin/bash
# usage: confirm_seed.sh <ID> [outdir]  -- independently confirm a seeded change produced by a sub-agent:
# clean tree: builds, demo exits 0;  with patch: builds, test suite still passes, demo exits non-zero.
# On success copies patch.diff, demo files and meta.json to /verif/seeded/<ID>/ and removes the scratch worktrees.
ID=$1; OUT=${2:-/tmp/wt/$ID-out}; NAME=${3:-$ID}
W=/tmp/wt/confirm-$NAME
set -u
git -C /repo worktree remove --force $W 2>/dev/null; rm -rf $W
git -C /repo worktree add --detach $W HEAD -q || exit 2
cd $W
build() { cmake -G Ninja -B _build -DCMAKE_BUILD_TYPE=Release >/dev/null 2>&1 && cmake --build _build >/dev/null 2>&1; }
build || { echo "CONFIRM $NAME: clean build failed"; exit 2; }
bash $OUT/demo.sh $W >/tmp/wt/confirm-$NAME.clean.log 2>&1; rc_clean=$?
git apply $OUT/patch.diff || { echo "CONFIRM $NAME: patch does not apply"; exit 2; }
build || { echo "CONFIRM $NAME: patched build failed"; exit 2; }
ctest --test-dir _build -j8 --timeout 900 > /tmp/wt/confirm-$NAME.ctest.log 2>&1
failed=$(grep -E "^\s*[0-9]+ - .*\((Failed|Timeout|SEGFAULT|Exception)" /tmp/wt/confirm-$NAME.ctest.log | grep -v pathologic | wc -l)
summary=$(grep "tests passed" /tmp/wt/confirm-$NAME.ctest.log)
bash $OUT/demo.sh $W >/tmp/wt/confirm-$NAME.patched.log 2>&1; rc_patched=$?
echo "CONFIRM $NAME: demo clean rc=$rc_clean patched rc=$rc_patched; suite: $summary; non-pathologic failures=$failed"
if [ $rc_clean -eq 0 ] && [ $rc_patched -ne 0 ] && [ $failed -eq 0 ]; then
  mkdir -p /verif/seeded/$NAME
  cp $OUT/patch.diff $OUT/meta.json /verif/seeded/$NAME/
  cp $OUT/demo* /verif/seeded/$NAME/ 2>/dev/null
  python3 - <<PY
import json
p='/verif/seeded/$NAME/meta.json'
try: m=json.load(open(p))
except Exception: m={}
m['confirmed_by_main']={'demo_clean_rc':$rc_clean,'demo_patched_rc':$rc_patched,'suite':"""$summary""",'non_pathologic_failures':$failed,'base_commit':"$(git -C /repo rev-parse --short HEAD)"}
json.dump(m,open(p,'w'),indent=1)
PY
  echo "CONFIRM $NAME: OK -> /verif/seeded/$NAME"
  rc=0
else
  echo "CONFIRM $NAME: REJECTED"; rc=1
fi
cd /; git -C /repo worktree remove --force $W; rm -rf $W
[ -d /tmp/wt/$ID ] && [ "$NAME" = "$ID" ] && { git -C /repo worktree remove --force /tmp/wt/$ID; rm -rf /tmp/wt/$ID; }
exit $rc
