/* C15: run-time monitor of the surgery theorems on the calls the real parser makes.
   Linked with -Wl,--wrap=<primitive> for the primitives of token.c that have a theorem in Properties_C15.v: every call
   coming from another file of the library (mmd.c, token_pairs.c, the grammar actions, the writers) goes through a wrapper
   here, which decides on the real heap whether the call satisfies the hypotheses of the theorem (chain doubly linked,
   recorded tail right, arguments in the same chain in order, ...), runs the real function, and, when the hypotheses
   held, checks the conclusions of the theorem on the result.
   Input:  <extensions> <format or -1> <hex source>
   Output: "<name>:<calls>:<calls within the hypotheses>:<conclusions that failed> ..." for the seven primitives, then
           "degenerate_graft:<n>" (first == last).  A conclusion that fails on a call within the hypotheses contradicts
           theorem + correspondence and is reported by the check. */
#include "hcommon.h"
#include "libMultiMarkdown.h"
#include "token.h"
#include "d_string.h"

#define LIMIT 2000000
enum { GRAFT, PRUNE, SPLIT, PARENT, APPEND, POP, CHAINAPP, NPRIM };
static const char * NAMES[NPRIM] = { "prune_graft", "prune", "split", "new_parent", "append_child", "pop_link", "chain_append" };
static long calls[NPRIM], pre_ok[NPRIM], post_fail[NPRIM], degenerate, parent_of_non_head;

/* the chain around x: prev links back to a head whose prev is NULL, next links to an end; neighbours point at each other */
static int chain_ok(token * x, token ** head, token ** end, long * len) {
	long n = 1; token * h = x, * e = x;
	while (h->prev) { if (h->prev->next != h || ++n > LIMIT) return 0; h = h->prev; }
	while (e->next) { if (e->next->prev != e || ++n > LIMIT) return 0; e = e->next; }
	*head = h; *end = e; if (len) *len = n; return 1;
}
/* forward only (new_parent clears child->prev whatever it was) */
static int forward_ok(token * x, token ** end) {
	long n = 1; token * e = x;
	while (e->next) { if (e->next->prev != e || ++n > LIMIT) return 0; e = e->next; }
	*end = e; return 1;
}
static int reaches(token * a, token * b) { long n = 0; while (a && a != b && ++n < LIMIT) a = a->next; return a == b; }

token * __real_token_prune_graft(token * first, token * last, unsigned short container_type);
token * __wrap_token_prune_graft(token * first, token * last, unsigned short container_type) {
	calls[GRAFT]++;
	int pre = 0; token * head = NULL, * end = NULL;
	if (first && last && first == last) degenerate++;
	if (first && last && first != last && chain_ok(first, &head, &end, NULL) && reaches(first, last) && head->tail == end &&
	    (first->mate == NULL || first->mate != first)) pre = 1;
	size_t fstart = first ? first->start : 0, lend = last ? last->start + last->len : 0;
	token * after = last ? last->next : NULL, * before = first ? first->prev : NULL, * mate = first ? first->mate : NULL;
	token * second = first ? first->next : NULL;
	unsigned short oldtype = first ? first->type : 0; size_t oldlen = first ? first->len : 0;
	token * r = __real_token_prune_graft(first, last, container_type);
	if (pre) {
		pre_ok[GRAFT]++;
		token * c = first->child, * h2, * e2, * ce;
		int ok = c && c != first && c->prev == NULL && c->tail == last && c->next == second && second->prev == c &&
		         forward_ok(c, &ce) && ce == last && c->type == oldtype && c->start == fstart && c->len == oldlen &&
		         first->type == container_type && first->start == fstart && first->len == lend - fstart &&
		         first->next == after && (!after || after->prev == first) && first->prev == before &&
		         chain_ok(first, &h2, &e2, NULL) && h2 == head && h2->tail == e2 &&
		         first->mate == NULL && c->mate == mate && (!mate || mate->mate == c) && r == first;
		if (!ok) post_fail[GRAFT]++;
	}
	return r;
}

void __real_tokens_prune(token * first, token * last);
void __wrap_tokens_prune(token * first, token * last) {
	calls[PRUNE]++;
	int pre = 0; token * head = NULL, * end = NULL;
	if (first && last && first->prev && chain_ok(first, &head, &end, NULL) && reaches(first, last) && head->tail == end) pre = 1;
	token * before = first ? first->prev : NULL, * after = last ? last->next : NULL;
	/* the pruned tokens are released by the real function (a no-op with the object pool this harness is built with) */
	__real_tokens_prune(first, last);
	if (pre) {
		pre_ok[PRUNE]++;
		token * h2, * e2;
		int ok = before->next == after && (!after || after->prev == before) && chain_ok(before, &h2, &e2, NULL) && h2 == head && h2->tail == e2;
		if (!ok) post_fail[PRUNE]++;
	}
}

void __real_token_split(token * t, size_t start, size_t len, unsigned short new_type);
void __wrap_token_split(token * t, size_t start, size_t len, unsigned short new_type) {
	calls[SPLIT]++;
	int pre = 0; token * head, * end; long n0 = 0;
	if (t && chain_ok(t, &head, &end, &n0) && t->start + t->len >= t->start && start + len >= start) pre = 1;
	size_t ts = t ? t->start : 0, tl = t ? t->len : 0; unsigned short tt = t ? t->type : 0; token * after = t ? t->next : NULL;
	__real_token_split(t, start, len, new_type);
	if (pre) {
		pre_ok[SPLIT]++;
		int ok = 1; token * h2, * e2; long n1 = 0;
		if (start < ts || start + len > ts + tl) {
			ok = t->start == ts && t->len == tl && t->type == tt && t->next == after;          /* outside: identity */
		} else {
			/* the tokens from t up to the old successor tile [ts, ts+tl) in order; exactly one of them is the requested range with the new kind */
			size_t pos = ts; int seen = 0; token * w = t;
			while (w && w != after) {
				if (w->start != pos) ok = 0;
				if (w->start == start && w->len == len && w->type == new_type) seen++; else if (w->type != tt) ok = 0;
				pos = w->start + w->len; w = w->next;
			}
			if (pos != ts + tl || seen != 1 || w != after) ok = 0;
			if (!chain_ok(t, &h2, &e2, &n1) || h2 != head) ok = 0;
			if (n1 - n0 != (start > ts) + (start + len < ts + tl)) ok = 0;
		}
		if (!ok) post_fail[SPLIT]++;
	}
}

token * __real_token_new_parent(token * child, unsigned short type);
token * __wrap_token_new_parent(token * child, unsigned short type) {
	calls[PARENT]++;
	int pre = 0; token * end = NULL;
	if (child && forward_ok(child, &end)) pre = 1;
	if (child && child->prev) parent_of_non_head++;      /* outside the history theorem: clearing prev leaves the old predecessor pointing here */
	token * r = __real_token_new_parent(child, type);
	if (pre) {
		pre_ok[PARENT]++;
		int ok = r && r->child == child && child->prev == NULL && r->type == type && r->start == child->start &&
		         r->len == (child->next ? end->start + end->len - child->start : child->len) &&
		         r->next == NULL && r->prev == NULL && r->tail == r && r->mate == NULL;
		if (!ok) post_fail[PARENT]++;
	}
	return r;
}

void __real_token_append_child(token * parent, token * t);
void __wrap_token_append_child(token * parent, token * t) {
	calls[APPEND]++;
	int pre = 0; token * ch = parent ? parent->child : NULL, * h1, * e1 = NULL, * h2, * e2 = NULL;
	if (parent && t && t->prev == NULL && chain_ok(t, &h2, &e2, NULL) && t->tail == e2) {
		if (!ch) pre = 1;
		else if (ch->prev == NULL && chain_ok(ch, &h1, &e1, NULL) && ch->tail == e1 && !reaches(ch, t)) pre = 1;
	}
	__real_token_append_child(parent, t);
	if (pre) {
		pre_ok[APPEND]++;
		token * h3, * e3;
		int ok = parent->child == (ch ? ch : t) && chain_ok(parent->child, &h3, &e3, NULL) && e3 == e2 && parent->child->tail == e2 &&
		         (!ch || (e1->next == t && t->prev == e1)) && parent->len == e2->start + e2->len - parent->start;
		if (!ok) post_fail[APPEND]++;
	}
}

void __real_token_pop_link_from_chain(token * t);
void __wrap_token_pop_link_from_chain(token * t) {
	calls[POP]++;
	int pre = 0; token * head = NULL, * end = NULL;
	if (t && chain_ok(t, &head, &end, NULL)) pre = 1;
	token * before = t ? t->prev : NULL, * after = t ? t->next : NULL;
	__real_token_pop_link_from_chain(t);
	if (pre) {
		pre_ok[POP]++;
		token * h2, * e2;
		int ok = t->next == NULL && t->prev == NULL && t->tail == t && (!before || before->next == after) && (!after || after->prev == before) &&
		         (!before || (chain_ok(before, &h2, &e2, NULL) && h2 == head && h2->tail == e2));
		if (!ok) post_fail[POP]++;
	}
}

void __real_token_chain_append(token * chain_start, token * t);
void __wrap_token_chain_append(token * chain_start, token * t) {
	calls[CHAINAPP]++;
	int pre = 0; token * h1, * e1 = NULL, * h2, * e2 = NULL;
	if (chain_start && t && chain_start->prev == NULL && t->prev == NULL && chain_ok(chain_start, &h1, &e1, NULL) && chain_start->tail == e1 &&
	    chain_ok(t, &h2, &e2, NULL) && t->tail == e2 && !reaches(chain_start, t)) pre = 1;
	__real_token_chain_append(chain_start, t);
	if (pre) {
		pre_ok[CHAINAPP]++;
		token * h3, * e3;
		int ok = e1->next == t && t->prev == e1 && chain_ok(chain_start, &h3, &e3, NULL) && h3 == chain_start && e3 == e2 && chain_start->tail == e2;
		if (!ok) post_fail[CHAINAPP]++;
	}
}

int main(void) {
	char * line;
	token_pool_init();
	while ((line = h_readline(stdin))) {
		char * f[4];
		int nf = h_split(line, ' ', f, 4);
		if (nf < 3) { printf("\n"); fflush(stdout); free(line); continue; }
		unsigned long ext = strtoul(f[0], 0, 10); int fmt = atoi(f[1]);
		size_t len; char * src = h_unhex(f[2], &len);
		memset(calls, 0, sizeof calls); memset(pre_ok, 0, sizeof pre_ok); memset(post_fail, 0, sizeof post_fail); degenerate = 0; parent_of_non_head = 0;
		mmd_engine * e = mmd_engine_create_with_string(src, ext);
		mmd_engine_parse_string(e);
		if (fmt >= 0) {
			DString * out = d_string_new("");
			mmd_engine_export_token_tree(out, e, (short) fmt);
			d_string_free(out, true);
		}
		for (int i = 0; i < NPRIM; i++) printf("%s:%ld:%ld:%ld ", NAMES[i], calls[i], pre_ok[i], post_fail[i]);
		printf("degenerate_graft:%ld new_parent_of_non_head:%ld\n", degenerate, parent_of_non_head); fflush(stdout);
		mmd_engine_free(e, true);
		free(src); free(line);
		token_pool_drain(); token_pool_init();
	}
	return 0;
}
