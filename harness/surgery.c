/* C15 correspondence harness for the tree surgery primitives of token.c (model: coq/model/TokenHeap.v).
   Input line:  <hex source or -> ; op ; op ...      tokens are named by their creation number (1, 2, ...; 0 = NULL)
     N type start len | C orig | P child type | A chain t | H parent t | RF parent | RL parent | RT head | FT t | PL t |
     PR first last | PG first last type | SP t start len type | SC t char | M a b (a->mate = b; b->mate = a)
   Output: "<n> type:start:len:next:prev:child:tail:mate ..." for all n tokens in creation order; a pointer to something
   that is not a token of this case prints as -1.  The scripts are cut by the check before the first operation the model
   says dereferences NULL, so every operation here runs on valid arguments. */
#include "hcommon.h"
#include "libMultiMarkdown.h"
#include "token.h"
#include "token_pairs.h"
void pair_emphasis_tokens(token * t);

#define MAXT 4096
static token * T[MAXT + 1];
static long nt;

static long idof(token * p) {
	if (!p) return 0;
	for (long i = 1; i <= nt; i++) if (T[i] == p) return i;
	return -1;
}
static token * tk(const char * s) {
	long i = atol(s);
	if (i <= 0 || i > nt) return NULL;
	return T[i];
}
static void add(token * p) { if (p && nt < MAXT && idof(p) == -1) T[++nt] = p; }
static unsigned long ul(const char * s) { return strtoul(s, NULL, 10); }

int main(void) {
	char * line;
	H_POOL_INIT();
	while ((line = h_readline(stdin))) {
		char * ops[2048];
		int no = h_split(line, ';', ops, 2048);
		char * src = NULL;
		nt = 0;
		for (int k = 0; k < no; k++) {
			char * f[14];
			int nf = h_split(ops[k], ' ', f, 14);
			if (k == 0) { src = (nf > 0 && strcmp(f[0], "-")) ? h_unhex(f[0], NULL) : strdup(""); continue; }
			if (nf == 0) continue;
			const char * o = f[0];
			if (!strcmp(o, "N") && nf == 4) add(token_new((unsigned short) ul(f[1]), ul(f[2]), ul(f[3])));
			else if (!strcmp(o, "C") && nf == 2) { if (tk(f[1])) add(token_copy(tk(f[1]))); }
			else if (!strcmp(o, "P") && nf == 3) add(token_new_parent(tk(f[1]), (unsigned short) ul(f[2])));
			else if (!strcmp(o, "A") && nf == 3) token_chain_append(tk(f[1]), tk(f[2]));
			else if (!strcmp(o, "H") && nf == 3) token_append_child(tk(f[1]), tk(f[2]));
			else if (!strcmp(o, "RF") && nf == 2) token_remove_first_child(tk(f[1]));
			else if (!strcmp(o, "RL") && nf == 2) token_remove_last_child(tk(f[1]));
			else if (!strcmp(o, "RT") && nf == 2) token_remove_tail(tk(f[1]));
			else if (!strcmp(o, "FT") && nf == 2) fix_token_chain_tail(tk(f[1]));
			else if (!strcmp(o, "PL") && nf == 2) token_pop_link_from_chain(tk(f[1]));
			else if (!strcmp(o, "PR") && nf == 3) {
				/* the real function releases the pruned tokens; with the object pool that is a no-op */
				tokens_prune(tk(f[1]), tk(f[2]));
			} else if (!strcmp(o, "PG") && nf == 4) {
				token * a = tk(f[1]), * b = tk(f[2]);
				token_prune_graft(a, b, (unsigned short) ul(f[3]));
				if (a && b) add(a->child);
			} else if ((!strcmp(o, "SP") && nf == 5) || (!strcmp(o, "SC") && nf == 3)) {
				token * t = tk(f[1]);
				token * after = t ? t->next : NULL;
				if (o[1] == 'P') token_split(t, ul(f[2]), ul(f[3]), (unsigned short) ul(f[4]));
				else token_split_on_char(t, src, (char) ul(f[2]));
				if (t) for (token * w = t->next; w && w != after; w = w->next) add(w);
			} else if (!strcmp(o, "M") && nf == 3) {
				token * a = tk(f[1]), * b = tk(f[2]);
				if (a && b) token_pair_mate(a, b);          /* token_pairs.c: a->mate = b; b->mate = a (and both are marked matched) */
			} else if (!strcmp(o, "EM") && nf >= 2) {
				/* mmd.c:pair_emphasis_tokens; the tokens it allocates (copies made by token_prune_graft) are found by walking
				   child / next from the known tokens and numbered by address (the pool hands out consecutive slots) */
				token * t = tk(f[1]);
				if (t) {
					pair_emphasis_tokens(t);
					static token * found[MAXT]; long nfound = 0;
					for (int pass = 0; pass < 64; pass++) {
						long before = nfound;
						for (long i = 1; i <= nt; i++) {
							token * c[2] = { T[i]->child, T[i]->next };
							for (int q = 0; q < 2; q++) if (c[q] && idof(c[q]) == -1) { int dup = 0; for (long z = 0; z < nfound; z++) if (found[z] == c[q]) dup = 1; if (!dup && nfound < MAXT) found[nfound++] = c[q]; }
						}
						/* add in address order, then look again from the new ones */
						for (long a = 0; a < nfound; a++) for (long b = a + 1; b < nfound; b++) if (found[b] < found[a]) { token * x = found[a]; found[a] = found[b]; found[b] = x; }
						if (nfound == before) break;
					}
					for (long a = 0; a < nfound; a++) add(found[a]);
				}
			} else { printf("BADOP %s ", o); }
		}
		printf("%ld", nt);
		for (long i = 1; i <= nt; i++) {
			token * t = T[i];
			printf(" %u:%lu:%lu:%ld:%ld:%ld:%ld:%ld", (unsigned) t->type, (unsigned long) t->start, (unsigned long) t->len,
			       idof(t->next), idof(t->prev), idof(t->child), idof(t->tail), idof(t->mate));
		}
		printf("\n"); fflush(stdout);
		free(src); free(line);
		H_POOL_DRAIN(); H_POOL_INIT();
	}
	return 0;
}
