/* C06 T-chk: every entry point on the same (source, format, extensions, language).
   argv[1] = scratch directory.  Input: <format> <ext> <lang> <hex source> <hex key>
   Output: fields "name:hex" separated by spaces. */
#include "hcommon.h"
#include <stdbool.h>
#include <unistd.h>
#include "libMultiMarkdown.h"
#include "token.h"
#include "d_string.h"

static const char * dir;

static void field(const char * name, const char * p, size_t n) {
	printf("%s:", name);
	if (!p) printf("NULL"); else h_puthex(stdout, p, n);
	printf(" ");
}
static void fieldz(const char * name, char * p) { field(name, p, p ? strlen(p) : 0); free(p); }
static void fieldd(const char * name, DString * d) { field(name, d ? d->str : NULL, d ? d->currentStringLength : 0); if (d) d_string_free(d, true); }
static void fieldf(const char * name, const char * path) {
	FILE * f = fopen(path, "rb");
	if (!f) { printf("%s:NOFILE ", name); return; }
	char * buf = NULL; size_t n = 0, cap = 0;
	for (;;) { if (n + 65536 > cap) { cap = cap ? cap * 2 : 1 << 17; buf = realloc(buf, cap); } size_t r = fread(buf + n, 1, 65536, f); n += r; if (r == 0) break; }
	fclose(f); unlink(path);
	field(name, buf, n); free(buf);
}

int main(int argc, char ** argv) {
	dir = argc > 1 ? argv[1] : ".";
	char p1[512], p2[512], p3[512];
	snprintf(p1, sizeof p1, "%s/api_s.out", dir); snprintf(p2, sizeof p2, "%s/api_d.out", dir); snprintf(p3, sizeof p3, "%s/api_e.out", dir);
	char * line;
	H_POOL_INIT();
	while ((line = h_readline(stdin))) {
		char * f[6];
		if (h_split(line, ' ', f, 6) < 5) { printf("\n"); fflush(stdout); free(line); continue; }
		short fmt = (short) atoi(f[0]); unsigned long ext = strtoul(f[1], 0, 10); short lang = (short) atoi(f[2]);
		size_t len; char * src = h_unhex(f[3], &len); char * key = h_unhex(f[4], NULL);
		DString * ds; mmd_engine * e; size_t end;
		/* convert */
		fieldz("S", mmd_string_convert(src, ext, fmt, lang));
		ds = d_string_new(src); fieldz("D", mmd_d_string_convert(ds, ext, fmt, lang)); field("Dsrc", ds->str, ds->currentStringLength); d_string_free(ds, true);
		e = mmd_engine_create_with_string(src, ext); mmd_engine_set_language(e, lang); fieldz("E", mmd_engine_convert(e, fmt));
		fieldz("E3", mmd_engine_convert(e, fmt));                       /* same engine, second conversion */
		mmd_engine_free(e, true);
		e = mmd_engine_create_with_string(src, ext); mmd_engine_set_language(e, lang);
		end = 0; bool hm = mmd_engine_has_metadata(e, &end); (void) hm;
		{ char * k = mmd_engine_metadata_keys(e); free(k); }
		(void) mmd_engine_metavalue_for_key(e, key);
		fieldz("E2", mmd_engine_convert(e, fmt));                       /* metadata queries first, then convert */
		mmd_engine_free(e, true);
		/* convert_to_data */
		fieldd("SD", mmd_string_convert_to_data(src, ext, fmt, lang, NULL));
		ds = d_string_new(src); fieldd("DD", mmd_d_string_convert_to_data(ds, ext, fmt, lang, NULL)); d_string_free(ds, true);
		e = mmd_engine_create_with_string(src, ext); mmd_engine_set_language(e, lang); fieldd("ED", mmd_engine_convert_to_data(e, fmt, NULL)); mmd_engine_free(e, true);
		/* convert_to_file */
		unlink(p1); unlink(p2); unlink(p3);
		mmd_string_convert_to_file(src, ext, fmt, lang, NULL, p1); fieldf("SF", p1);
		ds = d_string_new(src); mmd_d_string_convert_to_file(ds, ext, fmt, lang, NULL, p2); d_string_free(ds, true); fieldf("DF", p2);
		e = mmd_engine_create_with_string(src, ext); mmd_engine_set_language(e, lang); mmd_engine_convert_to_file(e, fmt, NULL, p3); mmd_engine_free(e, true); fieldf("EF", p3);
		/* metadata */
		char num[64];
		bool hb;
		end = 987654321; /* (not 0: a variant that does not write its result must show) */ hb = mmd_string_has_metadata(src, &end); snprintf(num, sizeof num, "%d,%lu", hb ? 1 : 0, (unsigned long) end); field("hasS", num, strlen(num));
		ds = d_string_new(src); end = 987654321; hb = mmd_d_string_has_metadata(ds, &end); snprintf(num, sizeof num, "%d,%lu", hb ? 1 : 0, (unsigned long) end); field("hasD", num, strlen(num)); d_string_free(ds, true);
		e = mmd_engine_create_with_string(src, 0); end = 987654321; hb = mmd_engine_has_metadata(e, &end); snprintf(num, sizeof num, "%d,%lu", hb ? 1 : 0, (unsigned long) end); field("hasE", num, strlen(num));
		{ char * k = mmd_engine_metadata_keys(e); fieldz("keysE", k); }
		{ char * v = mmd_engine_metavalue_for_key(e, key); field("valE", v, v ? strlen(v) : 0); }
		mmd_engine_free(e, true);
		fieldz("keysS", mmd_string_metadata_keys(src));
		ds = d_string_new(src); fieldz("keysD", mmd_d_string_metadata_keys(ds)); d_string_free(ds, true);
		fieldz("valS", mmd_string_metavalue_for_key(src, key));
		ds = d_string_new(src); fieldz("valD", mmd_d_string_metavalue_for_key(ds, key)); d_string_free(ds, true);
		printf("\n"); fflush(stdout);
		free(src); free(key); free(line);
		H_POOL_DRAIN(); H_POOL_INIT();
	}
	return 0;
}
