#define _GNU_SOURCE
/* General conversion harness (C01, C02b, C04, C08, C16, C20 ...).
   Input line:  <format> <extensions> <language> <hex source> [D [<hex directory>]]
   (D = use mmd_string_convert_to_data: binary / packaged result of the recorded length)
   Each case runs in a forked child, so exit() inside the library, crashes and stderr output are
   observed per case.  Output line:
     <status> <completed 0/1> <stderr hex> <output hex>
   status: 0 = child exited 0, N = exit code, -S = killed by signal S. */
#include "hcommon.h"
#include <unistd.h>
#include <sys/wait.h>
#include <poll.h>
#include "libMultiMarkdown.h"
#include "token.h"
#include "d_string.h"

static char * slurp2(int fd1, int fd2, char ** out2, size_t * n1, size_t * n2) {
	size_t c1 = 1 << 16, c2 = 1 << 12; char * b1 = malloc(c1), * b2 = malloc(c2);
	*n1 = *n2 = 0;
	struct pollfd p[2] = {{fd1, POLLIN, 0}, {fd2, POLLIN, 0}};
	int open_ = 2;
	while (open_ > 0) {
		if (poll(p, 2, -1) < 0) break;
		for (int k = 0; k < 2; k++) {
			if (p[k].fd >= 0 && (p[k].revents & (POLLIN | POLLHUP | POLLERR))) {
				char ** b = k ? &b2 : &b1; size_t * n = k ? n2 : n1; size_t * c = k ? &c2 : &c1;
				while (*n + 65536 > *c) { *c *= 2; *b = realloc(*b, *c); }
				ssize_t r = read(p[k].fd, *b + *n, 65536);
				if (r <= 0) { close(p[k].fd); p[k].fd = -1; open_--; } else *n += (size_t) r;
			}
		}
	}
	*out2 = b2;
	return b1;
}

int main(void) {
	char * line;
	while ((line = h_readline(stdin))) {
		char * f[6];
		int nf = h_split(line, ' ', f, 6);
		if (nf < 4) { printf("\n"); fflush(stdout); free(line); continue; }
		int fmt = atoi(f[0]); unsigned long ext = strtoul(f[1], 0, 10); int lang = atoi(f[2]);
		size_t len; char * src = h_unhex(f[3], &len);
		int po[2], pe[2];
		if (pipe(po) || pipe(pe)) return 2;
		fflush(stdout);
		pid_t pid = fork();
		if (pid == 0) {
			close(po[0]); close(pe[0]);
			dup2(pe[1], 2);
			alarm(20);
			H_POOL_INIT();
			char * out; size_t n;
			if (nf >= 5 && f[4][0] == 'D') {
				/* optional sixth field: hex of the directory assets are looked up in */
				char * dir = NULL; size_t dl;
				if (nf >= 6) dir = h_unhex(f[5], &dl);
				DString * dd = mmd_string_convert_to_data(src, ext, (short) fmt, (short) lang, dir);
				out = dd ? dd->str : NULL; n = dd ? dd->currentStringLength : 0;
			} else {
				out = mmd_string_convert(src, ext, (short) fmt, (short) lang);
				n = out ? strlen(out) : 0;
			}
			char done = 1;
			/* completion marker first, then the output */
			if (write(po[1], &done, 1) != 1) _exit(3);
			size_t off = 0;
			while (off < n) { ssize_t w = write(po[1], out + off, n - off); if (w <= 0) break; off += (size_t) w; }
			_exit(0);
		}
		close(po[1]); close(pe[1]);
		size_t n1, n2; char * e;
		char * o = slurp2(po[0], pe[0], &e, &n1, &n2);
		int st; waitpid(pid, &st, 0);
		int status = WIFEXITED(st) ? WEXITSTATUS(st) : -WTERMSIG(st);
		printf("%d %d ", status, n1 > 0 ? 1 : 0);
		/* the end of stderr is where a sanitizer report is */
		{
			size_t from = n2 > 1500 ? n2 - 1500 : 0;
			char * hit = n2 ? memmem(e, n2, "ERROR: AddressSanitizer", 23) : NULL;
			if (!hit && n2) hit = memmem(e, n2, "runtime error", 13);
			if (hit) { from = (size_t) (hit - e); if (from > 120) from -= 120; else from = 0; }
			h_puthex(stdout, e + from, n2 - from > 1500 ? 1500 : n2 - from);
		}
		printf(" ");
		if (n1 > 1) h_puthex(stdout, o + 1, n1 - 1); else printf("-");
		printf("\n"); fflush(stdout);
		free(o); free(e); free(src); free(line);
	}
	return 0;
}
