/* C15 T-chk: dump the token tree exposed through the public API after parsing, and again after an
   export (writers mutate the tree).  Input: <extensions> <format or -1> <hex source>
   Output: "<srclen> <n> id:type:start:len:next:prev:child:tail:mate ..." [ " | " second dump ]
   ids are assigned in traversal order (root = 1), 0 = NULL, -1 = pointer to a token outside the
   traversal (not reachable through child/next from the root). */
#include "hcommon.h"
#include "libMultiMarkdown.h"
#include "token.h"
#include "d_string.h"

#define MAXN 200000
static token * nodes[MAXN];
static long nn;

/* open-addressing pointer -> id map */
#define HS (1 << 19)
static token * hk[HS]; static long hv[HS];
static long lookup(token * t) {
	if (!t) return 0;
	unsigned long h = ((unsigned long) t >> 4) * 2654435761UL % HS;
	while (hk[h]) { if (hk[h] == t) return hv[h]; h = (h + 1) % HS; }
	return -1;
}
static int insert(token * t) {
	unsigned long h = ((unsigned long) t >> 4) * 2654435761UL % HS;
	while (hk[h]) { if (hk[h] == t) return 0; h = (h + 1) % HS; }
	hk[h] = t; hv[h] = ++nn; nodes[nn] = t; return 1;
}

static void dump(token * root, size_t srclen) {
	memset(hk, 0, sizeof hk); nn = 0;
	/* iterative traversal: child first, then next; each token entered once */
	static token * stack[MAXN]; long sp = 0;
	if (root) stack[sp++] = root;
	while (sp > 0 && nn < MAXN - 2) {
		token * t = stack[--sp];
		if (!insert(t)) continue;
		if (t->next && sp < MAXN - 2) stack[sp++] = t->next;
		if (t->child && sp < MAXN - 2) stack[sp++] = t->child;
	}
	printf("%lu %ld", (unsigned long) srclen, nn);
	for (long i = 1; i <= nn; i++) {
		token * t = nodes[i];
		printf(" %ld:%u:%lu:%lu:%ld:%ld:%ld:%ld:%ld", i, (unsigned) t->type, (unsigned long) t->start, (unsigned long) t->len,
		       lookup(t->next), lookup(t->prev), lookup(t->child), lookup(t->tail), lookup(t->mate));
	}
}

int main(void) {
	char * line;
	token_pool_init();
	while ((line = h_readline(stdin))) {
		char * f[4];
		int nf = h_split(line, ' ', f, 4);
		if (nf < 3) { printf("\n"); fflush(stdout); free(line); continue; }
		unsigned long ext = strtoul(f[0], 0, 10); int fmt = atoi(f[1]);
		size_t len; char * src = h_unhex(f[2], &len);
		mmd_engine * e = mmd_engine_create_with_string(src, ext);
		mmd_engine_parse_string(e);
		dump(mmd_engine_root(e), strlen(src));
		if (fmt >= 0) {
			DString * out = d_string_new("");
			mmd_engine_export_token_tree(out, e, (short) fmt);
			d_string_free(out, true);
			printf(" | ");
			dump(mmd_engine_root(e), strlen(src));
		}
		printf("\n"); fflush(stdout);
		mmd_engine_free(e, true);
		free(src); free(line);
		token_pool_drain(); token_pool_init();
	}
	return 0;
}
