/* C17 T-chk: T threads, each with its own engine per conversion, converting its own stream of
   documents (built with -DDISABLE_OBJECT_POOL, normally under ThreadSanitizer).
   argv: <threads> <rounds>.  stdin: one job per line "<fmt> <ext> <lang> <hexsrc>".
   Thread k converts jobs k, k+T, k+2T, ... <rounds> times.  Output: one line per job:
   "<index> <hex of serial result> <number of concurrent results that differ>" */
#include "hcommon.h"
#include <pthread.h>
#include "libMultiMarkdown.h"

#define MAXJ 4096
static short fmt[MAXJ], lang[MAXJ]; static unsigned long ext[MAXJ]; static char * src[MAXJ]; static char * ref[MAXJ];
static int differ[MAXJ]; static int njobs, T, rounds;

static void * worker(void * arg) {
	long k = (long) arg;
	for (int r = 0; r < rounds; r++)
		for (int j = (int) k; j < njobs; j += T) {
			char * out = mmd_string_convert(src[j], ext[j], fmt[j], lang[j]);
			if (!out || strcmp(out, ref[j]) != 0) __sync_fetch_and_add(&differ[j], 1);
			free(out);
		}
	return NULL;
}

int main(int argc, char ** argv) {
	T = argc > 1 ? atoi(argv[1]) : 4; rounds = argc > 2 ? atoi(argv[2]) : 3;
	char * line;
	while ((line = h_readline(stdin)) && njobs < MAXJ) {
		char * f[5];
		if (h_split(line, ' ', f, 5) >= 4) {
			fmt[njobs] = (short) atoi(f[0]); ext[njobs] = strtoul(f[1], 0, 10); lang[njobs] = (short) atoi(f[2]);
			src[njobs] = h_unhex(f[3], NULL); njobs++;
		}
		free(line);
	}
	for (int j = 0; j < njobs; j++) ref[j] = mmd_string_convert(src[j], ext[j], fmt[j], lang[j]);   /* serial reference */
	pthread_t th[64];
	if (T > 64) T = 64;
	for (long k = 0; k < T; k++) pthread_create(&th[k], NULL, worker, (void *) k);
	for (long k = 0; k < T; k++) pthread_join(th[k], NULL);
	for (int j = 0; j < njobs; j++) { printf("%d ", j); h_puthex(stdout, ref[j], strlen(ref[j])); printf(" %d\n", differ[j]); }
	return 0;
}
