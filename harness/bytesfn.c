/* Correspondence harness for byte-level functions (C04, C14, C16): "<name> <hex>" -> hex of the result */
#include "hcommon.h"
#include <stdbool.h>
#include "d_string.h"
#include "libMultiMarkdown.h"
#include "token.h"
char * label_from_string(const char * str);
char * clean_string(const char * str, bool lowercase, bool url_clean);
void mmd_print_string_html(DString * out, const char * str, bool obfuscate, bool line_breaks);
void mmd_print_string_latex(DString * out, const char * str);
void mmd_print_string_opendocument(DString * out, const char * str, bool line_breaks);
void mmd_print_source_opml(DString * out, const char * source, size_t start, size_t len);
void mmd_print_source_itmz(DString * out, const char * source, size_t start, size_t len);
void print_xml_as_text(DString * out, const char * source, size_t start, size_t len);
unsigned char * utf8_check(unsigned char * s);
void mmd_critic_markup_accept(DString * d);
void mmd_critic_markup_reject(DString * d);
void mmd_critic_markup_accept_range(DString * d, size_t start, size_t len);
void mmd_critic_markup_reject_range(DString * d, size_t start, size_t len);

int main(void) {
	char * line;
	H_POOL_INIT();
	while ((line = h_readline(stdin))) {
		char * f[5];
		int nf = h_split(line, ' ', f, 5);
		if (nf < 2) { printf("?\n"); fflush(stdout); free(line); continue; }
		size_t len; char * s = h_unhex(f[1], &len);
		DString * d = d_string_new("");
		char * r = NULL;
		if (!strcmp(f[0], "label")) r = label_from_string(s);
		else if (!strcmp(f[0], "clean00")) r = clean_string(s, false, false);
		else if (!strcmp(f[0], "clean10")) r = clean_string(s, true, false);
		else if (!strcmp(f[0], "clean01")) r = clean_string(s, false, true);
		else if (!strcmp(f[0], "clean11")) r = clean_string(s, true, true);
		else if (!strcmp(f[0], "esc_html")) mmd_print_string_html(d, s, false, false);
		else if (!strcmp(f[0], "esc_html_br")) mmd_print_string_html(d, s, false, true);
		else if (!strcmp(f[0], "esc_latex")) mmd_print_string_latex(d, s);
		else if (!strcmp(f[0], "esc_odf")) mmd_print_string_opendocument(d, s, false);
		else if (!strcmp(f[0], "esc_odf_br")) mmd_print_string_opendocument(d, s, true);
		else if (!strcmp(f[0], "esc_opml")) mmd_print_source_opml(d, s, 0, len);
		else if (!strcmp(f[0], "esc_itmz")) mmd_print_source_itmz(d, s, 0, len);
		else if (!strcmp(f[0], "accept")) { d_string_append(d, s); mmd_critic_markup_accept(d); }
		else if (!strcmp(f[0], "reject")) { d_string_append(d, s); mmd_critic_markup_reject(d); }
		else if (!strcmp(f[0], "accept_range") && nf >= 4) { d_string_append(d, s); mmd_critic_markup_accept_range(d, strtoul(f[2], 0, 10), strtoul(f[3], 0, 10)); }
		else if (!strcmp(f[0], "reject_range") && nf >= 4) { d_string_append(d, s); mmd_critic_markup_reject_range(d, strtoul(f[2], 0, 10), strtoul(f[3], 0, 10)); }
		else if (!strcmp(f[0], "unesc")) print_xml_as_text(d, s, 0, len);
		else if (!strcmp(f[0], "utf8")) d_string_append(d, utf8_check((unsigned char *) s) ? "0" : "1");
		if (r) { d_string_append(d, r); free(r); }
		h_puthex(stdout, d->str, d->currentStringLength);
		printf("\n"); fflush(stdout);
		d_string_free(d, true); free(s); free(line);
	}
	return 0;
}
