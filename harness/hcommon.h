/* Shared helpers for the correspondence harnesses: hex I/O, line reading. */
#ifndef HCOMMON_H
#define HCOMMON_H
#include <stdio.h>
#include <stdlib.h>
#include <string.h>
#include <stdint.h>

static char * h_readline(FILE * f) {
	size_t cap = 1 << 16, n = 0;
	char * buf = malloc(cap);
	int c;
	while ((c = fgetc(f)) != EOF) {
		if (c == '\n') { buf[n] = 0; return buf; }
		if (n + 2 > cap) { cap *= 2; buf = realloc(buf, cap); }
		buf[n++] = (char)c;
	}
	if (n == 0) { free(buf); return NULL; }
	buf[n] = 0;
	return buf;
}

static int h_hexval(int c) { return c <= '9' ? c - '0' : (c | 32) - 'a' + 10; }

/* decode hex ("-" = empty) into a fresh NUL-terminated buffer; *len receives the byte count */
static char * h_unhex(const char * s, size_t * len) {
	size_t n = (s[0] == '-') ? 0 : strlen(s) / 2;
	char * out = malloc(n + 1);
	for (size_t i = 0; i < n; i++) out[i] = (char)(h_hexval(s[2*i]) * 16 + h_hexval(s[2*i+1]));
	out[n] = 0;
	if (len) *len = n;
	return out;
}

static void h_puthex(FILE * f, const char * s, size_t n) {
	if (n == 0) { fputc('-', f); return; }
	for (size_t i = 0; i < n; i++) fprintf(f, "%02x", (unsigned char)s[i]);
}

/* split s in place on character c; returns number of fields (empty fields dropped) */
static int h_split(char * s, char c, char ** out, int max) {
	int n = 0;
	while (*s && n < max) {
		while (*s == c) s++;
		if (!*s) break;
		out[n++] = s;
		while (*s && *s != c) s++;
		if (*s) *s++ = 0;
	}
	return n;
}

/* the token pool functions do not exist in -DDISABLE_OBJECT_POOL builds */
#ifdef DISABLE_OBJECT_POOL
#define H_POOL_INIT() ((void) 0)
#define H_POOL_DRAIN() ((void) 0)
#else
#define H_POOL_INIT() token_pool_init()
#define H_POOL_DRAIN() token_pool_drain()
#endif
#endif
