/* C19 correspondence harness: runs DString operation sequences on the real d_string.c.
   Input line:  <init-hex> ; <op> ; <op> ...     Output: same format as ocaml/driver.ml dstring */
#include "hcommon.h"
#include "d_string.h"

static void obs(DString * d, const char * ret) {
	printf("%lu %lu ", d->currentStringLength, d->currentStringBufferSize);
	h_puthex(stdout, d->str, d->currentStringLength);
	printf(" %d %s", d->str[d->currentStringLength] == 0 ? 1 : 0, ret);
}

int main(void) {
	char * line;
	while ((line = h_readline(stdin))) {
		char * ops[4096];
		int nops = h_split(line, ';', ops, 4096);
		if (nops == 0) { printf("\n"); free(line); continue; }
		char * t[8];
		h_split(ops[0], ' ', t, 8);
		char * init = h_unhex(t[0], NULL);
		DString * d = d_string_new(init);
		free(init);
		obs(d, "-");
		for (int i = 1; i < nops; i++) {
			int nt = h_split(ops[i], ' ', t, 8);
			if (nt == 0) continue;
			char retbuf[64] = "-";
			char * retdyn = NULL;
			size_t pl;
			if (!strcmp(t[0], "A")) { char * p = h_unhex(t[1], NULL); d_string_append(d, p); free(p); }
			else if (!strcmp(t[0], "C")) { d_string_append_c(d, (char)strtoull(t[1], 0, 10)); }
			else if (!strcmp(t[0], "AA")) { char * p = h_unhex(t[1], &pl); d_string_append_c_array(d, p, strtoull(t[2], 0, 10)); free(p); }
			else if (!strcmp(t[0], "P")) { char * p = h_unhex(t[1], NULL); d_string_prepend(d, p); free(p); }
			else if (!strcmp(t[0], "I")) { char * p = h_unhex(t[2], NULL); d_string_insert(d, strtoull(t[1], 0, 10), p); free(p); }
			else if (!strcmp(t[0], "IC")) { d_string_insert_c(d, strtoull(t[1], 0, 10), (char)strtoull(t[2], 0, 10)); }
			else if (!strcmp(t[0], "IA")) { char * p = h_unhex(t[2], &pl); d_string_insert_c_array(d, strtoull(t[1], 0, 10), p, strtoull(t[3], 0, 10)); free(p); }
			else if (!strcmp(t[0], "E")) { d_string_erase(d, strtoull(t[1], 0, 10), strtoull(t[2], 0, 10)); }
			else if (!strcmp(t[0], "S")) {
				FILE * save = stderr; stderr = fopen("/dev/null", "w");
				char * r = d_string_copy_substring(d, strtoull(t[1], 0, 10), strtoull(t[2], 0, 10));
				fclose(stderr); stderr = save;
				if (r) { size_t n = strlen(r); retdyn = malloc(2 * n + 8); strcpy(retdyn, "S:");
					if (n == 0) strcat(retdyn, "-");
					for (size_t k = 0; k < n; k++) sprintf(retdyn + 2 + 2 * k, "%02x", (unsigned char)r[k]);
					free(r);
				} else strcpy(retbuf, "S:NULL");
			}
			else if (!strcmp(t[0], "R")) { char * o = h_unhex(t[3], NULL); char * r = h_unhex(t[4], NULL);
				long dl = d_string_replace_text_in_range(d, strtoull(t[1], 0, 10), strtoull(t[2], 0, 10), o, r);
				snprintf(retbuf, sizeof retbuf, "D:%ld", dl); free(o); free(r); }
			printf(" | ");
			obs(d, retdyn ? retdyn : retbuf);
			free(retdyn);
		}
		printf("\n");
		fflush(stdout);
		d_string_free(d, 1);
		free(line);
	}
	return 0;
}
