/* C18 correspondence harness: runs pool histories on the real token.c / object_pool.c.
   Input line: ops separated by spaces:  I  D  F  A<n>  V<k>
   Output: per op "count has_pool slabs remaining [first last newslabs ok | allocs hash]" joined by " | " */
#include "hcommon.h"
#include "libMultiMarkdown.h"
#include "token.h"
#include "d_string.h"

void verif_token_pool_state(long * count, long * has_pool, long * slabs, long * remaining);

#define MAXTOK 400000
static token * epoch[MAXTOK];
static long nepoch = 0;

static void state(void) {
	long c, h, s, r;
	verif_token_pool_state(&c, &h, &s, &r);
	printf("%ld %ld %ld %ld", c, h, s, r);
}

static long total_allocs(void) {
	long c, h, s, r;
	verif_token_pool_state(&c, &h, &s, &r);
	if (!h || s <= 0) return 0;
	return s * 1024 - (r < 0 ? 0 : r);
}

/* every token handed out in this epoch must still be readable, writable and hold its serial */
static int verify_epoch(void) {
	for (long i = 0; i < nepoch; i++) {
		if (epoch[i]->start != (size_t)(i + 7)) return 0;
		epoch[i]->len = (size_t) i;
	}
	return 1;
}

static unsigned long fnv(const char * s) {
	unsigned long h = 1469598103934665603UL;
	for (; *s; s++) { h ^= (unsigned char) *s; h *= 1099511628211UL; }
	return h;
}

int main(void) {
	char * line;
	while ((line = h_readline(stdin))) {
		char * ops[4096];
		int nops = h_split(line, ' ', ops, 4096);
		nepoch = 0;
		for (int i = 0; i < nops; i++) {
			if (i) printf(" | ");
			char k = ops[i][0];
			long n = ops[i][1] ? atol(ops[i] + 1) : 0;
			if (k == 'I') { token_pool_init(); state(); }
			else if (k == 'D') {
				int ok = verify_epoch();
				token_pool_drain();
				long c, h, s, r; verif_token_pool_state(&c, &h, &s, &r);
				if (c == 0) nepoch = 0;
				state(); printf(" %d", ok);
			}
			else if (k == 'F') {
				FILE * save = stderr; stderr = fopen("/dev/null", "w");
				token_pool_free();
				fclose(stderr); stderr = save;
				state();
			}
			else if (k == 'A') {
				long first = -1, last = -1, newslabs = 0; int ok = 1;
				token * prev = NULL;
				for (long j = 0; j < n; j++) {
					long c, h, s, r; verif_token_pool_state(&c, &h, &s, &r);
					long idx = (r <= 0) ? 0 : 1024 - r;
					token * t = token_new(1, (size_t)(nepoch + 7), 0);
					if (!t) { ok = 0; break; }
					if (idx == 0) newslabs++;
					else if (prev && (char *) t != (char *) prev + sizeof(token)) ok = 0;
					if (j == 0) first = idx;
					last = idx; prev = t;
					if (nepoch < MAXTOK) epoch[nepoch++] = t;
				}
				if (!verify_epoch()) ok = 0;
				/* pairwise distinct: addresses are handed out in increasing order inside a slab and
				   slabs are live malloc blocks, so distinctness = no two equal among the epoch list */
				state(); printf(" %ld %ld %ld %d", first, last, newslabs, ok);
			}
			else if (k == 'V') {
				DString * src = d_string_new("");
				for (long j = 0; j < n; j++) d_string_append_printf(src, "Para *%ld* with [link](http://x.y/%ld) and `code`.\n\n", j, j);
				long before = total_allocs();
				long c0, h0, s0, r0; verif_token_pool_state(&c0, &h0, &s0, &r0);
				char * out = mmd_string_convert(src->str, EXT_SMART | EXT_NOTES, FORMAT_HTML, ENGLISH);
				long after = total_allocs();
				int ok = verify_epoch();
				state(); printf(" %ld %lu %d", after - before, out ? fnv(out) : 0UL, ok);
				free(out); d_string_free(src, 1);
			}
		}
		printf("\n"); fflush(stdout);
		/* leave the global pool as a fresh process would have it for the next case */
		{ long c, h, s_, r; verif_token_pool_state(&c, &h, &s_, &r);
		  while (c > 0) { token_pool_drain(); c--; }
		  while (c < 0) { token_pool_init(); token_pool_drain(); token_pool_init(); c++; }
		  token_pool_free(); }
		free(line);
	}
	return 0;
}
