/* C11 correspondence harness.
   Q <hexsrc> <hexkey>             -> has end keys-hex value-hex|NULL   (engine API)
   U <hexsrc> <hexkey> <hexvalue>  -> hex of the updated source          (mmd_string_update_metavalue_for_key)
   I <hexsrc> <hexkey> <hexvalue> <ext> <how>  -> hex of the engine's text after importing an outline (ext has EXT_PARSE_OPML or
                                      EXT_PARSE_ITMZ) and then updating a metadata value on the same engine; how=0: import by
                                      parsing, how=1: import through mmd_engine_convert_{opml,itmz}_to_text first        (C01) */
#include "hcommon.h"
#include <stdbool.h>
#include "libMultiMarkdown.h"
#include "token.h"
#include "d_string.h"

int main(void) {
	char * line;
	H_POOL_INIT();
	while ((line = h_readline(stdin))) {
		char * f[6];
		int nf = h_split(line, ' ', f, 6);
		if (nf < 3) { printf("?\n"); fflush(stdout); free(line); continue; }
		char * src = h_unhex(f[1], NULL); char * key = h_unhex(f[2], NULL);
		if (f[0][0] == 'Q') {
			mmd_engine * e = mmd_engine_create_with_string(src, 0);
			size_t end = 0; bool has = mmd_engine_has_metadata(e, &end);
			char * keys = mmd_engine_metadata_keys(e);
			char * val = mmd_engine_metavalue_for_key(e, key);
			printf("%d %lu ", has ? 1 : 0, (unsigned long) end);
			h_puthex(stdout, keys ? keys : "", keys ? strlen(keys) : 0); printf(" ");
			if (val) h_puthex(stdout, val, strlen(val)); else printf("NULL");
			printf("\n");
			free(keys); mmd_engine_free(e, true);
		} else if (f[0][0] == 'I' && nf >= 5) {
			size_t n = 0;
			char * raw = h_unhex(f[1], &n);
			char * val = h_unhex(f[3], NULL);
			unsigned long ext = strtoul(f[4], NULL, 10); int how = nf > 5 ? atoi(f[5]) : 0;
			DString * d = d_string_new("");
			d_string_append_c_array(d, raw, n);
			mmd_engine * e = mmd_engine_create_with_dstring(d, ext);
			if (how == 1) {
				DString * t = (ext & EXT_PARSE_ITMZ) ? mmd_engine_convert_itmz_to_text(e) : mmd_engine_convert_opml_to_text(e);
				d_string_append(t, val); d_string_prepend(t, val);
				d_string_free(t, true);
			} else {
				mmd_engine_parse_string(e);
			}
			mmd_engine_update_metavalue_for_key(e, key, val);
			h_puthex(stdout, d->str, d->currentStringLength); printf("\n");
			mmd_engine_free(e, true);
			free(val); free(raw);
		} else if (nf >= 4) {
			char * val = h_unhex(f[3], NULL);
			char * out = mmd_string_update_metavalue_for_key(src, key, val);
			h_puthex(stdout, out ? out : "", out ? strlen(out) : 0); printf("\n");
			free(out); free(val);
		}
		fflush(stdout);
		free(src); free(key); free(line);
		H_POOL_DRAIN(); H_POOL_INIT();
	}
	return 0;
}
