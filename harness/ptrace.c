/* C02 tie: dumps the lemon parser trace (all nested block parses, bracketed by hook H3) for a
   source.  Input line: <extensions> <hex source>.  Output: the raw trace, lines joined by TAB. */
#include "hcommon.h"
#include "libMultiMarkdown.h"
#include "token.h"

void ParseTrace(FILE * TraceFILE, char * zTracePrompt);
extern FILE * verif_parse_trace;

int main(void) {
	char * line;
	token_pool_init();
	while ((line = h_readline(stdin))) {
		char * f[4];
		int nf = h_split(line, ' ', f, 4);
		if (nf < 2) { printf("\n"); free(line); continue; }
		unsigned long ext = strtoul(f[0], 0, 10);
		size_t len;
		char * src = h_unhex(f[1], &len);
		char * buf = NULL; size_t blen = 0;
		FILE * m = open_memstream(&buf, &blen);
		ParseTrace(m, "");
		verif_parse_trace = m;
		/* errors written by the grammar's %syntax_error / %parse_failure code go to stderr */
		mmd_engine * e = mmd_engine_create_with_string(src, ext);
		mmd_engine_parse_string(e);
		mmd_engine_free(e, true);
		ParseTrace(NULL, "");
		verif_parse_trace = NULL;
		fclose(m);
		for (size_t i = 0; i < blen; i++) if (buf[i] == '\n') buf[i] = '\t';
		fwrite(buf, 1, blen, stdout);
		printf("\n"); fflush(stdout);
		free(buf); free(src); free(line);
		token_pool_drain(); token_pool_init();
	}
	return 0;
}
