/* C05 T-chk: a history of conversions in ONE process.  Input line: ops separated by ';'
     S <fmt> <ext> <lang> <hexsrc>    fresh engine through mmd_string_convert
     R <fmt> <ext> <lang> <hexsrc>    the case's single reused engine: its DString content is replaced
   Output: one hex result per op, separated by ' | '; after each S op the caller's buffer is compared
   with a copy ("!SRC-MODIFIED" appended if it changed). */
#include "hcommon.h"
#include <stdbool.h>
#include "libMultiMarkdown.h"
#include "token.h"
#include "d_string.h"

int main(void) {
	char * line;
	token_pool_init();
	while ((line = h_readline(stdin))) {
		char * ops[512];
		int n = h_split(line, ';', ops, 512);
		mmd_engine * eng = NULL; DString * engd = NULL;
		for (int i = 0; i < n; i++) {
			char * f[6];
			if (h_split(ops[i], ' ', f, 6) < 5) continue;
			short fmt = (short) atoi(f[1]); unsigned long ext = strtoul(f[2], 0, 10); short lang = (short) atoi(f[3]);
			size_t len; char * src = h_unhex(f[4], &len);
			char * out = NULL; int modified = 0;
			if (f[0][0] == 'S') {
				char * copy = malloc(len + 1); memcpy(copy, src, len + 1);
				out = mmd_string_convert(src, ext, fmt, lang);
				modified = memcmp(copy, src, len + 1) != 0; free(copy);
			} else {
				/* extensions and language are chosen once, when the engine is created */
				if (!eng) { engd = d_string_new(src); eng = mmd_engine_create_with_dstring(engd, ext); mmd_engine_set_language(eng, lang); }
				else { d_string_erase(engd, 0, -1); d_string_append(engd, src); }
				out = mmd_engine_convert(eng, fmt);
			}
			if (i) printf(" | ");
			h_puthex(stdout, out ? out : "", out ? strlen(out) : 0);
			if (modified) printf("!SRC-MODIFIED");
			free(out); free(src);
		}
		if (eng) { mmd_engine_free(eng, true); }
		printf("\n"); fflush(stdout);
		free(line);
		token_pool_drain(); token_pool_init();
	}
	return 0;
}
