/* C07 T-chk: work counters for one conversion.  Input: <fmt> <ext> <hex source>
   Output: "<pair steps (hook H2)> <tokens allocated (hook H1)> <output length> <basic blocks> <bytes handled inside libc>"
   basic blocks: in the "cov" build variant every object of the library is compiled with -fsanitize-coverage=trace-pc,
   which calls __sanitizer_cov_trace_pc() once per executed basic block; the count is the property's own cost measure
   ("executed basic blocks, not seconds").  0 in the other variants. */
#include "hcommon.h"
#include "libMultiMarkdown.h"
#include "token.h"
extern __thread unsigned long verif_pair_steps;
void verif_token_pool_state(long * count, long * has_pool, long * slabs, long * remaining);

static unsigned long long verif_bb;
__attribute__((no_sanitize_coverage)) void __sanitizer_cov_trace_pc(void) { verif_bb++; }

/* work done inside the C library on behalf of the converter: in the "cov" variant the library is compiled with
   -fno-builtin and this harness is linked with --wrap for the string and memory functions below; every call adds the
   number of bytes it has to look at or move (for the scanning functions: up to the terminator they stop at).  Without
   this a loop that moved into strcat / strlen / memmove would be invisible to the basic-block count. */
#include <stdarg.h>
static unsigned long long verif_libc_bytes;
#define NOCOV __attribute__((no_sanitize_coverage))
size_t __real_strlen(const char * s);
char * __real_strcat(char * d, const char * s);
char * __real_strncat(char * d, const char * s, size_t n);
char * __real_strcpy(char * d, const char * s);
char * __real_strncpy(char * d, const char * s, size_t n);
void * __real_memcpy(void * d, const void * s, size_t n);
void * __real_memmove(void * d, const void * s, size_t n);
void * __real_memset(void * d, int c, size_t n);
int __real_strcmp(const char * a, const char * b);
int __real_strncmp(const char * a, const char * b, size_t n);
int __real_memcmp(const void * a, const void * b, size_t n);
char * __real_strstr(const char * h, const char * n);
char * __real_strchr(const char * s, int c);
char * __real_strrchr(const char * s, int c);
char * __real_strdup(const char * s);
int __real_vsnprintf(char * str, size_t size, const char * format, va_list ap);
NOCOV size_t __wrap_strlen(const char * s) { size_t n = __real_strlen(s); verif_libc_bytes += n + 1; return n; }
NOCOV char * __wrap_strcat(char * d, const char * s) { verif_libc_bytes += __real_strlen(d) + __real_strlen(s) + 1; return __real_strcat(d, s); }
NOCOV char * __wrap_strncat(char * d, const char * s, size_t n) { size_t l = __real_strlen(s); verif_libc_bytes += __real_strlen(d) + (l < n ? l : n) + 1; return __real_strncat(d, s, n); }
NOCOV char * __wrap_strcpy(char * d, const char * s) { verif_libc_bytes += __real_strlen(s) + 1; return __real_strcpy(d, s); }
NOCOV char * __wrap_strncpy(char * d, const char * s, size_t n) { verif_libc_bytes += n; return __real_strncpy(d, s, n); }
NOCOV void * __wrap_memcpy(void * d, const void * s, size_t n) { verif_libc_bytes += n; return __real_memcpy(d, s, n); }
NOCOV void * __wrap_memmove(void * d, const void * s, size_t n) { verif_libc_bytes += n; return __real_memmove(d, s, n); }
NOCOV void * __wrap_memset(void * d, int c, size_t n) { verif_libc_bytes += n; return __real_memset(d, c, n); }
NOCOV int __wrap_strcmp(const char * a, const char * b) { size_t i = 0; while (a[i] && a[i] == b[i]) i++; verif_libc_bytes += i + 1; return __real_strcmp(a, b); }
NOCOV int __wrap_strncmp(const char * a, const char * b, size_t n) { size_t i = 0; while (i < n && a[i] && a[i] == b[i]) i++; verif_libc_bytes += i + 1; return __real_strncmp(a, b, n); }
NOCOV int __wrap_memcmp(const void * a, const void * b, size_t n) { verif_libc_bytes += n; return __real_memcmp(a, b, n); }
NOCOV char * __wrap_strstr(const char * h, const char * n) { char * r = __real_strstr(h, n); verif_libc_bytes += (r ? (size_t)(r - h) : __real_strlen(h)) + 1; return r; }
NOCOV char * __wrap_strchr(const char * s, int c) { char * r = __real_strchr(s, c); verif_libc_bytes += (r ? (size_t)(r - s) : __real_strlen(s)) + 1; return r; }
NOCOV char * __wrap_strrchr(const char * s, int c) { verif_libc_bytes += __real_strlen(s) + 1; return __real_strrchr(s, c); }
NOCOV char * __wrap_strdup(const char * s) { verif_libc_bytes += 2 * (__real_strlen(s) + 1); return __real_strdup(s); }
NOCOV int __wrap_vsnprintf(char * str, size_t size, const char * format, va_list ap) { int r = __real_vsnprintf(str, size, format, ap); if (r > 0) verif_libc_bytes += (size_t) r; return r; }

int main(void) {
	char * line;
	while ((line = h_readline(stdin))) {
		char * f[4];
		if (h_split(line, ' ', f, 4) < 3) { printf("\n"); fflush(stdout); free(line); continue; }
		short fmt = (short) atoi(f[0]); unsigned long ext = strtoul(f[1], 0, 10);
		size_t len; char * src = h_unhex(f[2], &len);
		token_pool_init();
		unsigned long before = verif_pair_steps; unsigned long long bb0 = verif_bb, lb0 = verif_libc_bytes;
		char * out = mmd_string_convert(src, ext, fmt, 0);
		long c, h, s, r; verif_token_pool_state(&c, &h, &s, &r);
		long toks = (h && s > 0) ? s * 1024 - (r < 0 ? 0 : r) : 0;
		unsigned long long bb = verif_bb - bb0, lb = verif_libc_bytes - lb0;
		printf("%lu %ld %lu %llu %llu\n", verif_pair_steps - before, toks, out ? (unsigned long) __real_strlen(out) : 0UL, bb, lb); fflush(stdout);
		free(out); free(src); free(line);
		token_pool_drain(); token_pool_free();
	}
	return 0;
}
