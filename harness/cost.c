/* C07 T-chk: work counters for one conversion.  Input: <fmt> <ext> <hex source>
   Output: "<pair steps (hook H2)> <tokens allocated (hook H1)> <output length> <basic blocks>"
   basic blocks: in the "cov" build variant every object of the library is compiled with -fsanitize-coverage=trace-pc,
   which calls __sanitizer_cov_trace_pc() once per executed basic block; the count is the property's own cost measure
   ("executed basic blocks, not seconds").  0 in the other variants. */
#include "hcommon.h"
#include "libMultiMarkdown.h"
#include "token.h"
extern __thread unsigned long verif_pair_steps;
void verif_token_pool_state(long * count, long * has_pool, long * slabs, long * remaining);

static unsigned long long verif_bb;
__attribute__((no_sanitize_coverage)) void __sanitizer_cov_trace_pc(void) { verif_bb++; }

int main(void) {
	char * line;
	while ((line = h_readline(stdin))) {
		char * f[4];
		if (h_split(line, ' ', f, 4) < 3) { printf("\n"); fflush(stdout); free(line); continue; }
		short fmt = (short) atoi(f[0]); unsigned long ext = strtoul(f[1], 0, 10);
		size_t len; char * src = h_unhex(f[2], &len);
		token_pool_init();
		unsigned long before = verif_pair_steps; unsigned long long bb0 = verif_bb;
		char * out = mmd_string_convert(src, ext, fmt, 0);
		long c, h, s, r; verif_token_pool_state(&c, &h, &s, &r);
		long toks = (h && s > 0) ? s * 1024 - (r < 0 ? 0 : r) : 0;
		unsigned long long bb = verif_bb - bb0;
		printf("%lu %ld %lu %llu\n", verif_pair_steps - before, toks, out ? (unsigned long) strlen(out) : 0UL, bb); fflush(stdout);
		free(out); free(src); free(line);
		token_pool_drain(); token_pool_free();
	}
	return 0;
}
