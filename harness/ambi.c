/* Correspondence harness for the STAR / UL cases of mmd_assign_ambidextrous_tokens_in_block (mmd.c):
   "<hex of a NUL-free text>" -> "<offset>:<can_open><can_close> ..." for every '*' and '_' of the text, in order.
   The engine's text is moved into a block of exactly strlen+1 bytes, so that the sanitizer sees a read one byte
   before the text or one byte after its terminator. */
#include "hcommon.h"
#include "d_string.h"
#include "libMultiMarkdown.h"
#include "mmd.h"
#include "token.h"
void mmd_assign_ambidextrous_tokens_in_block(mmd_engine * e, token * block, size_t start_offset);

token * mmd_tokenize_string(mmd_engine * e, size_t start, size_t len, bool stop_on_empty_line);
void mmd_parse_token_chain(mmd_engine * e, token * chain);

/* "T <hex>": the text goes through the real lexer and block parser (smart typography on, no metadata); every token
   of a kind the routine looks at is listed before ("<kind>:<start>:<len>") and after the routine
   ("<can_open><can_close><= same type | A apostrophe | T plain text>:<len>"), in document order */
static token * interesting[4096];
static int n_interesting;

static char kind_of(unsigned short type) {
	switch (type) {
		case STAR: return 'S';
		case UL: return 'U';
		case BACKTICK: return 'B';
		case QUOTE_SINGLE: return 'Q';
		case QUOTE_DOUBLE: return 'D';
		case DASH_N: return 'N';
		case MATH_DOLLAR_SINGLE: case MATH_DOLLAR_DOUBLE: return 'M';
		case SUPERSCRIPT: case SUBSCRIPT: return 'P';
		default: return 0;
	}
}

static void collect(token * t) {
	for (; t; t = t->next) {
		if (kind_of(t->type) && n_interesting < 4096) interesting[n_interesting++] = t;
		if (t->child) collect(t->child);
	}
}

static void real_tokens(const char * s, size_t len) {
	mmd_engine * e = mmd_engine_create_with_string(s, EXT_SMART | EXT_NO_METADATA | EXT_NOTES);
	char * exact = malloc(len + 1);
	memcpy(exact, s, len); exact[len] = 0;
	free(e->dstr->str); e->dstr->str = exact;
	token * doc = mmd_tokenize_string(e, 0, len, false);
	mmd_parse_token_chain(e, doc);
	n_interesting = 0;
	if (doc) collect(doc->child);
	unsigned short before[4096];
	for (int i = 0; i < n_interesting; i++) {
		before[i] = interesting[i]->type;
		printf("%s%c:%zu:%zu", i ? " " : "", kind_of(before[i]), interesting[i]->start, interesting[i]->len);
	}
	printf(" |");
	if (doc) mmd_assign_ambidextrous_tokens_in_block(e, doc, 0);
	for (int i = 0; i < n_interesting; i++) {
		token * t = interesting[i];
		char r = t->type == before[i] ? '=' : t->type == APOSTROPHE ? 'A' : t->type == TEXT_PLAIN ? 'T' : '?';
		printf(" %d%d%c:%zu", t->can_open ? 1 : 0, t->can_close ? 1 : 0, r, t->len);
	}
	printf("\n"); fflush(stdout);
	e->root = doc;
	mmd_engine_free(e, true);
}

int main(void) {
	char * line;
	H_POOL_INIT();
	while ((line = h_readline(stdin))) {
		if (line[0] == 'T' && line[1] == ' ') {
			size_t len; char * s = h_unhex(line + 2, &len);
			real_tokens(s, len);
			H_POOL_DRAIN(); H_POOL_INIT();
			free(s); free(line);
			continue;
		}
		size_t len; char * s = h_unhex(strcmp(line, "-") ? line : "", &len);
		mmd_engine * e = mmd_engine_create_with_string(s, 0);
		char * exact = malloc(len + 1);
		memcpy(exact, s, len); exact[len] = 0;
		free(e->dstr->str); e->dstr->str = exact;
		token * block = token_new(BLOCK_PARA, 0, len);
		for (size_t i = 0; i < len; i++)
			if (s[i] == '*' || s[i] == '_') token_append_child(block, token_new(s[i] == '*' ? STAR : UL, i, 1));
		mmd_assign_ambidextrous_tokens_in_block(e, block, 0);
		int first = 1;
		for (token * t = block->child; t; t = t->next) {
			printf("%s%zu:%d%d", first ? "" : " ", t->start, t->can_open ? 1 : 0, t->can_close ? 1 : 0);
			first = 0;
		}
		printf("\n"); fflush(stdout);
		token_tree_free(block);
		mmd_engine_free(e, true);
		H_POOL_DRAIN(); H_POOL_INIT();
		free(s); free(line);
	}
	return 0;
}
