/* C13 correspondence harness.  Input line (fields separated by ' '):
     <format> <hex search path> <hex source path> <hex source> [<hex path>=<hex content>]...
   Files are created (directories as needed) before the call.  Output: <hex result> <hex manifest entry>... */
#include "hcommon.h"
#include <sys/stat.h>
#include <unistd.h>
#include "libMultiMarkdown.h"
#include "d_string.h"
#include "stack.h"
#include "token.h"
#include "transclude.h"

static void mkdirs(char * path) {
	for (char * p = path + 1; *p; p++) if (*p == '/') { *p = 0; mkdir(path, 0777); *p = '/'; }
}

int main(void) {
	char * line;
	token_pool_init();
	while ((line = h_readline(stdin))) {
		static char * f[4096];
		int nf = h_split(line, ' ', f, 4096);
		if (nf < 4) { printf("\n"); fflush(stdout); free(line); continue; }
		short fmt = (short) atoi(f[0]);
		char * search = h_unhex(f[1], NULL); char * spath = h_unhex(f[2], NULL); char * src = h_unhex(f[3], NULL);
		char * made[4096]; int nmade = 0;
		for (int i = 4; i < nf; i++) {
			char * eq = strchr(f[i], '='); if (!eq) continue; *eq = 0;
			size_t clen; char * p = h_unhex(f[i], NULL); char * c = h_unhex(eq + 1, &clen);
			mkdirs(p);
			FILE * fp = fopen(p, "wb"); if (fp) { fwrite(c, 1, clen, fp); fclose(fp); }
			made[nmade++] = p; free(c);
		}
		DString * buffer = d_string_new(src);
		stack * manifest = stack_new(0);
		mmd_transclude_source(buffer, search, spath, fmt, NULL, manifest);
		h_puthex(stdout, buffer->str, buffer->currentStringLength);
		for (size_t i = 0; i < manifest->size; i++) { char * m = stack_peek_index(manifest, i); printf(" "); h_puthex(stdout, m, strlen(m)); free(m); }
		printf("\n"); fflush(stdout);
		for (int i = 0; i < nmade; i++) { unlink(made[i]); free(made[i]); }
		stack_free(manifest); d_string_free(buffer, true);
		free(search); free(spath); free(src); free(line);
	}
	return 0;
}
