/* C15/C07 correspondence harness for the pair matcher (model: coq/model/PairMatch.v).
   Input line:  op ; op ; ...     tokens are named by their creation number (1, 2, ...; 0 = NULL)
     N type start len | A chain t | P child type | F t can_open can_close unmatched | E open close pair options | MP parent
   Output: "<n> type:start:len:next:prev:child:tail:mate:can_open:can_close:unmatched ..." for all n tokens in creation order
   (tokens the matcher allocates - the copies made by token_prune_graft - are found by walking child / next from the known
   tokens and numbered by address: the object pool hands out consecutive slots). */
#include "hcommon.h"
#include "libMultiMarkdown.h"
#include "token.h"
#include "token_pairs.h"
#include "stack.h"

#define MAXT 8192
static token * T[MAXT + 1];
static long nt;

static long idof(token * p) {
	if (!p) return 0;
	for (long i = 1; i <= nt; i++) if (T[i] == p) return i;
	return -1;
}
static token * tk(const char * s) { long i = atol(s); return (i <= 0 || i > nt) ? NULL : T[i]; }
static void add(token * p) { if (p && nt < MAXT && idof(p) == -1) T[++nt] = p; }
static unsigned long ul(const char * s) { return strtoul(s, NULL, 10); }

static token * found[MAXT]; static long nfound;
static void discover(token * t, int depth) {
	while (t && depth < 5000) {
		if (idof(t) == -1) { int dup = 0; for (long i = 0; i < nfound; i++) if (found[i] == t) dup = 1; if (!dup && nfound < MAXT) found[nfound++] = t; }
		if (t->child) discover(t->child, depth + 1);
		t = t->next;
	}
}
static int by_addr(const void * a, const void * b) { token * x = *(token **) a, * y = *(token **) b; return x < y ? -1 : x > y; }

int main(void) {
	char * line;
	H_POOL_INIT();
	while ((line = h_readline(stdin))) {
		static char * ops[4096];
		int no = h_split(line, ';', ops, 4096);
		nt = 0;
		token_pair_engine * e = token_pair_engine_new();
		for (int k = 0; k < no; k++) {
			char * f[6];
			int nf = h_split(ops[k], ' ', f, 6);
			if (nf == 0) continue;
			const char * o = f[0];
			if (!strcmp(o, "N") && nf == 4) add(token_new((unsigned short) ul(f[1]), ul(f[2]), ul(f[3])));
			else if (!strcmp(o, "A") && nf == 3) token_chain_append(tk(f[1]), tk(f[2]));
			else if (!strcmp(o, "P") && nf == 3) add(token_new_parent(tk(f[1]), (unsigned short) ul(f[2])));
			else if (!strcmp(o, "F") && nf == 5) { token * t = tk(f[1]); if (t) { t->can_open = atoi(f[2]); t->can_close = atoi(f[3]); t->unmatched = atoi(f[4]); } }
			else if (!strcmp(o, "E") && nf == 5) token_pair_engine_add_pairing(e, (unsigned short) ul(f[1]), (unsigned short) ul(f[2]), (unsigned short) ul(f[3]), (int) ul(f[4]));
			else if (!strcmp(o, "MP") && nf == 2) {
				token * p = tk(f[1]);
				if (p) {
					stack * s = stack_new(0);
					token_pairs_match_pairs_inside_token(p, e, s, 0);
					stack_free(s);
					nfound = 0;
					long n0 = nt;
					for (long i = 1; i <= n0; i++) { if (T[i]->child) discover(T[i]->child, 0); }
					qsort(found, nfound, sizeof(token *), by_addr);
					for (long i = 0; i < nfound; i++) add(found[i]);
				}
			} else printf("BADOP %s ", o);
		}
		printf("%ld", nt);
		for (long i = 1; i <= nt; i++) {
			token * t = T[i];
			printf(" %u:%lu:%lu:%ld:%ld:%ld:%ld:%ld:%d:%d:%d", (unsigned) t->type, (unsigned long) t->start, (unsigned long) t->len,
			       idof(t->next), idof(t->prev), idof(t->child), idof(t->tail), idof(t->mate), t->can_open ? 1 : 0, t->can_close ? 1 : 0, t->unmatched ? 1 : 0);
		}
		printf("\n"); fflush(stdout);
		token_pair_engine_free(e);
		free(line);
		H_POOL_DRAIN(); H_POOL_INIT();
	}
	return 0;
}
